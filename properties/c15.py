"""C15 -- printing a spec and reading it back preserves its meaning."""
import random

ID = "C15"
LEVEL = "exploration"
RULE = ("cases: generated spec S (grammar from /verif's AST with emphasis on postfix operators on groups and on single symbols, nested groups, open-ended and "
        "computed bounds, alternatives inside concatenations, literals with both quote kinds, backslashes, non-ASCII, non-printables, text/bytes regexes, "
        "bits, party annotations, generators, every constraint form) | harvested spec. P = str(parse_content(S)) (what `convert`, the shell and the language "
        "tooling print) is read back as S'. Compared: rule structure in a normal form (nested groups flattened, bounds canonical, terminal values, parties); on "
        "any structural difference the bounded reference languages of S and S' (words up to the bound); constraint verdicts of S and S' on the parse trees of "
        "sampled words; generator call text and arguments. Non-trivial: grammar has >= 1 operator or the spec has >= 1 constraint; distinct by spec text.")
TIMEOUTS = {"quick": (60, 300), "thorough": (120, 2400)}
MIN = {"quick": {"cases": 400, "nontrivial": 400, "observed": {"printed_specs_reread": 400, "constraint_verdicts_compared": 400}},
       "thorough": {"cases": 4000, "nontrivial": 3500, "observed": {"printed_specs_reread": 3500}}}
ASSUMPTIONS = ["language equality is decided structurally (normal form) or, failing that, on the bounded word sets of the reference enumerator"]

PROFILES = [
    ("text", dict(kind="text", regex=0.3, regex_delimited=False)),
    ("text-groups", dict(kind="text", regex=0.1, depth=4, max_nts=3)),
    ("bytes", dict(kind="bytes", regex_delimited=False)),
    ("bits", dict(kind="bits", max_nts=2)),
    ("mixed", dict(kind="mixed", regex_delimited=False)),
    ("text-nonascii", dict(kind="text", non_ascii=0.4, regex_delimited=False)),
    ("handwritten", None),
    ("constraints", "constraints"),
    ("selectors", "selectors"),
    ("consgen", "consgen"),
]
HANDWRITTEN = [
    "<start> ::= ('a' 'b')* 'c'\n", "<start> ::= ('a' | 'b')+ 'c'\n", "<start> ::= 'a'{2,} 'c'\n", "<start> ::= 'a'{,3} 'c'\n", "<start> ::= ('a' 'b'){2} 'c'\n",
    "<start> ::= ('a' 'b')? 'c'\n", "<start> ::= ('a'*)+ 'c'\n", "<start> ::= (('a' 'b')* 'c'){1,2}\n", "<start> ::= 'a' ('b' 'c' | 'd')? 'e'\n",
    "<start> ::= 'it\\'s' \"q\\\"\" 'back\\\\slash' 'nl\\n' 'é' '\\x00' '\\t'\n", "<start> ::= r'[a-z]+\\d' rb'\\x00[\\x01-\\x05]' b'\\xff\\x00'\n",
    "<start> ::= r'it\\'s\"x'\n", "<start> ::= r\"a'b\" r'a\"b'\n", "<start> ::= 0 1 1 0{4} <b>\n<b> ::= (0|1){2}\n",
    "<start> ::= <n> <a>{int(<n>)}\n<n> ::= '1'|'2'\n<a> ::= 'a'\n", "<start> ::= <n> <a>{int(<n>),}\n<n> ::= '1'|'2'\n<a> ::= 'a'\n",
    "<start> ::= <a> <b>\n<a> ::= <d>+\n<d> ::= '0'|'1'\n<b> ::= <d>+ := str(int(<a>) + 1)\n", "<start> ::= <a>\n<a> ::= r'.*' := 'x' + 'y'\n",
    "<start> ::= <a>\n<a> ::= 'x'* | 'y'{2,3} | ('z' 'w'){,2}\n", "<start> ::= ''\n", "<start> ::= '' 'a' | ''\n", "<start> ::= b'' b'a'\n",
    "<start> ::= 'a'{0}\n" if False else "<start> ::= 'a'{1}\n", "<start> ::= '\\'' \"'\" '\"' \"\\\"\"\n", "<start> ::= '\\\\' '\\\\\\\\' r'\\\\'\n",
    "<start> ::= '€' '日本' '\\u00e9' '\\U0001F600'\n", "<start> ::= b'\\x7f\\x80' rb'[\\x80-\\xff]+'\n", "<start> ::= 'a' | 'b' 'c' | ('d' | 'e') 'f'\n",
]
CONSTRAINT_FORMS = [
    "int(<d>) > 0", "<start>.<a> == '2' or len(str(<start>)) > 1", "forall <x> in <a>: str(<x>) != 'z'", "exists <x> in <d>: str(<x>) == '1'",
    "all(str(x) != 'z' for x in *<a>)", "any(int(x) > 0 for x in *<d>)", "|<d>| >= 1", "str(<start>[0]) != 'q'", "str(<start>..<d>) != 'x'",
    "str(<a>[0:1]) != 'zz'", "str(<a>[:2]) != 'zz'", "len(<a>[1:]) >= 0", "int(<d>) >= 0 and str(<a>) != '' or |<a>| == 7", "str(<a>) != \"it's\"",
    "str(<a>) != 'q\"q'", "str(<a>) != 'back\\\\slash'", "'1' in str(<a>) or True", "str(<a>).startswith('1') or str(<a>).startswith('0')",
    "len(str(<a>)) < 5", "not str(<a>).endswith('9')", "int(<d>) * 2 + 1 != 4", "str(<start>{<a>}) != ''" if False else "int(<d>) % 2 <= 1",
]
CGRAMMAR = "<start> ::= <a> (',' <a>)*\n<a> ::= <d>+\n<d> ::= '0' | '1' | '2'\n"
CWORDS = ["0", "1", "12", "2,0", "10,21,2", "222", "0,0", "1,2,0,1"]


def selector_forms(rng, k):
    """constraints whose verdict depends on exactly which nodes an index / slice / path selector picks"""
    out = []
    for _ in range(k):
        base = rng.choice(["<a>", "<start>", "<d>", "<start>.<a>", "<a>..<d>", "<start>..<d>", "<a>.<d>"])
        r = rng.random()
        if r < 0.25:
            sel = f"{base}[{rng.choice([0, 1, -1, 2])}]"
        else:
            b = lambda: rng.choice(["", "", "0", "1", "2", "-1", "3"])
            sel = f"{base}[{b()}:{b()}]" if rng.random() < 0.7 else f"{base}[{b()}:{b()}:{rng.choice(['1', '2', '', '-1'])}]"
        form = rng.choice(["len({s}) == {n}", "len({s}) >= {n}", "str({s}) != '{t}'", "len(str({s})) == {n}", "str({s}) == '{t}'", "str({s}).startswith('{t}')"])
        out.append(form.format(s=sel, n=rng.choice([0, 0, 1, 2]), t=rng.choice(["", "0", "1", "12", "2"])))
    return out


def cases(tier, seed):
    rng = random.Random(15000 + seed)
    n = 800 if tier == "quick" else 8000
    out = []
    for i in range(n):
        p = PROFILES[i % len(PROFILES)][0]
        out.append({"key": f"{p}-{i}", "kind": "gen", "profile": p, "idx": i // len(PROFILES), "gseed": rng.randrange(1 << 30), "seed": rng.randrange(1 << 30)})
    from vf.gen import harvest

    for f in harvest.safe_complete_specs():
        out.append({"key": f"harvest-{f.split('/repo/')[-1]}", "kind": "harvest", "file": f, "seed": rng.randrange(1 << 30)})
    return out


def node_norm(n):
    """normal form of a fandango grammar node (structure, bounds, terminal values, parties)"""
    from fandango.language.grammar.nodes.non_terminal import NonTerminalNode
    from fandango.language.grammar.nodes.terminal import TerminalNode
    from fandango.language.grammar.nodes.alternative import Alternative
    from fandango.language.grammar.nodes.concatenation import Concatenation
    from fandango.language.grammar.nodes.repetition import Repetition
    from vf.trees import sym_key

    if isinstance(n, TerminalNode):
        return ("T", sym_key(n.symbol))
    if isinstance(n, NonTerminalNode):
        return ("N", n.symbol.name(), n.sender, n.recipient)
    if isinstance(n, Concatenation):
        items = []
        for c in n.nodes:
            x = node_norm(c)
            if x[0] == "seq":
                items.extend(x[1])
            else:
                items.append(x)
        return items[0] if len(items) == 1 else ("seq", tuple(items))
    if isinstance(n, Alternative):
        items = []
        for c in n.alternatives:
            x = node_norm(c)
            if x[0] == "alt":
                items.extend(x[1])
            else:
                items.append(x)
        return items[0] if len(items) == 1 else ("alt", tuple(items))
    if isinstance(n, Repetition):
        comp = n.bounds_constraint is not None
        return ("rep", node_norm(n.node), n.min if not comp else "computed", n.internal_max if not comp else "computed", comp)
    return ("?", type(n).__name__)


def grammar_norm(g):
    return {nt.name(): node_norm(node) for nt, node in g.rules.items()}


def has_construct(text, what):
    import re
    if what == "computed":
        return re.search(r"\{[^}]*[<a-zA-Z(][^}]*\}", text) is not None
    if what == "oldquant":
        return re.search(r"\b(forall|exists)\b", text) is not None
    if what == "generator":
        return re.search(r"[^:]:=", text) is not None
    return False


def run_case(c):
    import re
    from collections import Counter
    from fandango import Fandango
    from fandango.language.parse.parse_spec import parse_content
    from vf.gen import specgen, inputs
    from vf.ref.grammar_model import from_fandango
    from vf.monitors import steps

    rng = random.Random(c["seed"])
    stats = Counter()
    violations = []
    constraints = []
    if c["kind"] == "harvest":
        from vf.gen import harvest
        text = harvest.read(c["file"])
        if "include(" in text or "import " in text and ("faker" in text or "socket" in text):
            return {"status": "ok", "stats": {"harvest_skipped_includes_or_imports": 1}, "nontrivial": False}
    elif c["profile"] == "handwritten":
        text = HANDWRITTEN[c["idx"] % len(HANDWRITTEN)]
    elif c["profile"] == "constraints":
        k = rng.randint(1, 3)
        constraints = rng.sample(CONSTRAINT_FORMS, k)
        text = CGRAMMAR + "".join("where " + x + "\n" for x in constraints)
    elif c["profile"] == "selectors":
        constraints = selector_forms(rng, rng.randint(1, 3))
        text = CGRAMMAR + "".join("where " + x + "\n" for x in constraints)
    elif c["profile"] == "consgen":
        from vf.gen import consgen
        from vf.ref import constraint_sem as cs_
        gname = rng.choice(sorted(consgen.GRAMMARS))
        gtext, info = consgen.GRAMMARS[gname]
        constraints = [cs_.to_text(consgen.rand_constraint(rng, info, depth=rng.choice([0, 0, 1, 2]))) for _ in range(rng.randint(1, 2))]
        text = gtext + "".join("where " + x + "\n" for x in constraints)
        cwords = consgen.WORDS[gname]
    else:
        prof = dict(PROFILES)[c["profile"]]
        rules, feats, model = specgen.random_grammar(random.Random(c["gseed"]), specgen.Profile(**prof))
        # sprinkle party annotations / computed bounds are covered by the handwritten list
        text = specgen.to_spec(rules)
    try:
        s1 = parse_content(text, filename="<s>", use_cache=False)
    except Exception as e:
        return {"status": "ok", "stats": {"source_spec_rejected": 1, "rejected:" + type(e).__name__: 1}, "nontrivial": False}
    try:
        printed = str(s1)
    except Exception as e:
        violations.append({"what": f"printing the spec raises {type(e).__name__}: {str(e)[:120]}", "mech": None, "spec": text})
        return {"status": "violation", "violations": violations, "stats": dict(stats), "nontrivial": True, "distinct_key": c["key"]}
    stats["printed_specs"] += 1

    def _regexes(node):
        from fandango.language.grammar.nodes.terminal import TerminalNode
        if isinstance(node, TerminalNode):
            if node.symbol.is_regex:
                yield node.symbol.value()._value
        for ch in node.children():
            yield from _regexes(ch)
    both_quotes = False
    for rule in s1.grammar.rules.values():
        for pat in _regexes(rule):
            ptxt = pat.decode("latin-1") if isinstance(pat, bytes) else str(pat)
            if "'" in ptxt and '"' in ptxt:
                both_quotes = True

    def mech_for(where):
        keys = []
        if has_construct(text, "computed"):
            keys.append("computed-repetition-printed-as-range")
        if has_construct(text, "oldquant") and where in ("reread", "constraints"):
            keys.append("old-style-quantifier-printed-without-star")
        if has_construct(text, "generator") and where in ("reread", "generators"):
            keys.append("generator-arguments-elided")
        if both_quotes:
            keys.append("regex-with-both-quote-kinds")
        return "+".join(keys) if keys else None

    try:
        s2 = parse_content(printed, filename="<p>", use_cache=False)
    except Exception as e:
        violations.append({"what": f"the printed form cannot be read back: {type(e).__name__}: {str(e)[:160]}; printed: {printed[:300]!r}",
                           "mech": mech_for("reread"), "spec": text, "printed": printed})
        return {"status": "violation", "violations": violations, "stats": dict(stats), "nontrivial": True, "distinct_key": c["key"]}
    stats["printed_specs_reread"] += 1
    g1, g2 = s1.grammar, s2.grammar
    n1, n2 = grammar_norm(g1), grammar_norm(g2)
    if n1 != n2:
        diff = [k for k in n1 if n1.get(k) != n2.get(k)] + [k for k in n2 if k not in n1]
        stats["structural_differences"] += 1
        # decide on the bounded languages
        m1, m2 = from_fandango(g1), from_fandango(g2)
        lang_diff = None
        for st in diff[:3]:
            if st not in m1.rules or st not in m2.rules:
                lang_diff = (st, "symbol missing after re-reading")
                break
            w1 = set(m1.words(st, max_len=6, cap=1500))
            w2 = set(m2.words(st, max_len=6, cap=1500))
            if w1 != w2:
                ex = sorted(w1 ^ w2, key=lambda w: (len(w), w))[0]
                lang_diff = (st, f"word {ex!r} is in {'S' if ex in w1 else 'the re-read spec'} only")
                break
            # equal word sets: compare bounds that the bounded enumeration cannot see
            if n1.get(st) != n2.get(st):
                lang_diff = (st, "same words up to the bound, but different rule structure/bounds: " + repr(n1.get(st))[:120] + " vs " + repr(n2.get(st))[:120])
        if lang_diff:
            violations.append({"what": f"rule {lang_diff[0]} changes meaning through print -> read: {lang_diff[1]}; printed rule: {g1.get_repr_for_rule(lang_diff[0])[:200]!r}",
                               "mech": mech_for("grammar"), "spec": text, "printed": printed})
    # generators
    gen1 = {k.name(): (re.sub(r"___fandango_\d+_\d+___", "NT", v.call), sorted(x.symbol.name() for x in v.nonterminals.values())) for k, v in g1.generators.items()}
    gen2 = {k.name(): (re.sub(r"___fandango_\d+_\d+___", "NT", v.call), sorted(x.symbol.name() for x in v.nonterminals.values())) for k, v in g2.generators.items()}
    if gen1 != gen2:
        violations.append({"what": f"generators differ after print -> read: {gen1} vs {gen2}", "mech": mech_for("generators"), "spec": text, "printed": printed})
    # constraints: verdicts on the parse trees of sampled words
    cons1 = [x for x in s1.constraints if type(x).__name__ != "RepetitionBoundsConstraint"]
    cons2 = [x for x in s2.constraints if type(x).__name__ != "RepetitionBoundsConstraint"]
    if len(cons1) != len(cons2):
        violations.append({"what": f"{len(cons1)} constraints printed, {len(cons2)} read back; printed: {printed[-300:]!r}", "mech": mech_for("constraints"), "spec": text, "printed": printed})
    elif cons1 and c["kind"] == "gen" and c["profile"] in ("constraints", "selectors", "consgen"):
        try:
            f1 = Fandango(text, use_stdlib=False)
        except Exception as e:
            # the full loader checks more than the reader (e.g. selectors that cannot match): the written spec is not a valid subject
            return {"status": "ok", "stats": {"source_spec_rejected_by_loader": 1, "rejected:" + type(e).__name__: 1}, "nontrivial": False}
        try:
            f2 = Fandango(printed, use_stdlib=False)
        except Exception as e:
            violations.append({"what": f"the written spec loads, its printed form is rejected by the loader: {type(e).__name__}: {str(e)[:160]}; printed: {printed[-300:]!r}",
                               "mech": mech_for("reread"), "spec": text, "printed": printed})
            return {"status": "violation", "violations": violations, "stats": dict(stats), "nontrivial": True, "distinct_key": c["key"]}
        for w in (cwords if c["profile"] == "consgen" else CWORDS):
            t1 = f1.grammar.parse(w)
            t2 = f2.grammar.parse(w)
            if t1 is None or t2 is None:
                continue
            for a, b in zip(f1.constraints, f2.constraints):
                if type(a).__name__ == "RepetitionBoundsConstraint":
                    continue
                try:
                    va = bool(a.check(t1))
                except Exception:
                    va = "raises"
                try:
                    vb = bool(b.check(t2))
                except Exception:
                    vb = "raises"
                stats["constraint_verdicts_compared"] += 1
                if va != vb:
                    violations.append({"what": f"constraint `{a.format_as_spec()}` gives {va} on {w!r}, its re-read form `{b.format_as_spec()}` gives {vb}",
                                       "mech": mech_for("constraints"), "spec": text, "printed": printed})
                    break
    # idempotence of printing (a cheap extra: the re-read spec prints the same text)
    try:
        if str(s2) != printed:
            stats["reprint_differs"] += 1
    except Exception:
        stats["reprint_raises"] += 1
    stats["evaluations"] = 1
    nontrivial = bool(re.search(r"[*+?{|]", text)) or bool(constraints) or "where" in text
    res = {"status": "violation" if violations else "ok", "violations": violations[:4], "stats": dict(stats),
           "nontrivial": nontrivial, "distinct_key": text[:300]}
    if hash(c["key"]) % 40 == 0 or violations:
        res["sample"] = {"spec": text[:600], "printed": printed[:600]}
    return res
