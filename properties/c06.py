"""C06 -- parsing always terminates (bounded progress with a divergence witness)."""
import itertools
import random

ID = "C06"
LEVEL = "exploration"
RULE = ("cases: generated grammar (emphasis: empty-deriving symbols under repetitions, nested repetitions, left/right/mutual recursion, unit cycles, "
        "empty-matching regexes) x all inputs over the grammar's alphabet up to a length bound x request kind (first tree, forest <= 200 trees, prefix "
        "mode (first 3 trees: its forest is in general infinite), other start symbol, fuzz steps that parse internally). Logical clock: states admitted into Earley columns (Column.add), reset at every "
        "output. Violated: clock passes the budget AND a pumping witness exists (one state core admitted > 64 times into one column with growing child "
        "lists). Budget passed without witness = inconclusive. Non-trivial: grammar has a repetition or recursion; distinct by (grammar, input, request).")
TIMEOUTS = {"quick": (90, 420), "thorough": (240, 2400)}
MIN = {"quick": {"cases": 100, "nontrivial": 3000, "observed": {"requests": 5000}},
       "thorough": {"cases": 1000, "nontrivial": 30000, "observed": {"requests": 50000}}}
ASSUMPTIONS = ["an unbounded 'eventually returns' cannot be decided by a finite run: decided is bounded progress (budget on admitted states) plus a divergence witness",
               "budget = 8000 admissions per output; finitely ambiguous grammars of this size class need < 1500 (max observed is reported in the evidence)"]
BUDGET = 8000

PROFILES = [
    ("nullable-rep", dict(kind="text", allow_nullable_under_rep=True, allow_empty_lit=True, regex=0.15, max_nts=3, depth=3, regex_delimited=False)),
    ("left-rec", dict(kind="text", allow_left_rec=True, recursion=0.7, max_nts=3, regex=0.1)),
    ("unit-cycles", dict(kind="text", allow_left_rec=True, unit_cycles=True, allow_nullable_under_rep=True, recursion=0.8, max_nts=3, regex=0.0)),
    ("plain-text", dict(kind="text", max_nts=3)),
    ("nested-rep", dict(kind="text", regex=0.0, max_nts=2, depth=4)),
    ("bytes", dict(kind="bytes", max_nts=3)),
    ("bits-nullable", dict(kind="bits", allow_nullable_under_rep=True, max_nts=2)),
    ("computed-rep", None),
    ("handwritten", None),
]

# computed repetitions (bound taken from an earlier field of the tree) under every list shape: the parser rebuilds the
# partial tree to evaluate the bound, walking up the parse table
LIST_SHAPES = [
    '<list> ::= <list> "," <item> | <item>\n',
    '<list> ::= <item> "," <list> | <item>\n',
    '<list> ::= <item> ("," <item>)*\n',
    '<list> ::= <list> <item> | <item>\n',
    '<list> ::= <list> "," <list> | <item>\n',
    '<list> ::= <rest> <item> | <item>\n<rest> ::= <list> ","\n',
    '<list> ::= (<item> ",")* <item>\n',
    '<list> ::= <item>+\n',
    '<list> ::= "(" <list> ")" | <list> "," <item> | <item>\n',
]
ITEM_SHAPES = [
    '<item> ::= <len> <char>{int(<len>)}\n',
    '<item> ::= <len> ":" <char>{int(<len>)}\n',
    '<item> ::= <len> (<char> | "-"){int(<len>)}\n',
    '<item> ::= <len> (<char> <char>?){int(<len>)}\n',
    '<item> ::= <len> <char>{int(<len>), int(<len>) + 1}\n',
    '<item> ::= "[" <len> <char>{int(<len>)} "]" | <char>\n',
]


def computed_rep_spec(rng):
    return ("<start> ::= <list>\n" + rng.choice(LIST_SHAPES) + rng.choice(ITEM_SHAPES)
            + '<len> ::= r"[0-9]"\n<char> ::= r"[a-z]"\n')


def computed_rep_inputs(rng, n):
    out = set()
    while len(out) < n:
        items = []
        for _ in range(rng.randint(1, 4)):
            k = rng.choice([0, 1, 1, 2, 2, 3])
            body = "".join(rng.choice("abz-") for _ in range(k + rng.choice([0, 0, 0, 1, -1]) if k else 0))
            items.append(rng.choice(["", "", "["]) + str(k) + rng.choice(["", "", ":"]) + body)
        w = rng.choice([",", ",", ""]).join(items)
        if rng.random() < 0.3 and w:
            w = w[:rng.randrange(len(w))]
        if rng.random() < 0.15:
            w = "(" + w + ")"
        out.add(w[:14])
    return sorted(out)

HANDWRITTEN = [
    "<start> ::= <a>+\n<a> ::= 'x'?\n",
    "<start> ::= (<a>*)*\n<a> ::= 'x'\n",
    "<start> ::= ('' | 'x')*\n",
    "<start> ::= <a> | 'y'\n<a> ::= <start> | 'x'\n",
    "<start> ::= <start> 'a' | 'b'\n",
    "<start> ::= 'a' <start> | 'b'\n",
    "<start> ::= <start> <start> | 'a'\n",
    "<start> ::= (r'[0-9]*')+ ';'\n",
    "<start> ::= ('a'? 'b'?){2,}\n",
    "<start> ::= <a>{,3}\n<a> ::= <b>*\n<b> ::= 'x' | 'y'\n",
    "<start> ::= ('x' | <b>)*\n<b> ::= 'y'{1,3}\n",
    "<start> ::= <e> 'x' <e>\n<e> ::= ''\n",
]


def cases(tier, seed):
    rng = random.Random(6000 + seed)
    n = 128 if tier == "quick" else 1400
    out = []
    for i in range(n):
        p = PROFILES[i % len(PROFILES)][0]
        c = {"key": f"{p}-{i}", "profile": p, "gseed": rng.randrange(1 << 30), "seed": rng.randrange(1 << 30),
             "maxlen": 3 if tier == "quick" else 4}
        if p == "handwritten":
            c["text"] = HANDWRITTEN[(i // len(PROFILES)) % len(HANDWRITTEN)]
            c["key"] = f"handwritten-{(i // len(PROFILES)) % len(HANDWRITTEN)}-{i}"
        out.append(c)
    return out


def setup():
    from vf.monitors import steps, loops

    steps.install()
    loops.install()


def _features_from_fandango(f):
    from vf.ref.grammar_model import from_fandango

    return from_fandango(f.grammar)


def run_case(c):
    from collections import Counter
    from fandango import Fandango
    from fandango.language.grammar import ParsingMode
    from vf.gen import specgen, inputs
    from vf.monitors import steps, loops
    from vf.ref.grammar_model import RefGrammar

    rng = random.Random(c["seed"])
    stats = Counter()
    violations = []
    distinct = set()
    if c["profile"] in ("handwritten", "computed-rep"):
        text = c["text"] if c["profile"] == "handwritten" else computed_rep_spec(random.Random(c["gseed"]))
        f = Fandango(text, use_stdlib=False)
        model = _features_from_fandango(f)
        names = list(model.rules)
    else:
        prof = dict(PROFILES)[c["profile"]]
        rules, feats, model = specgen.random_grammar(random.Random(c["gseed"]), specgen.Profile(**prof))
        text = specgen.to_spec(rules)
        f = Fandango(text, use_stdlib=False)
        names = list(rules)
    gfeats = model.features()
    # mechanism keys of the known findings come from /verif's own grammar analysis
    mech_parts = sorted(k for k in gfeats if k in ("nullable-body-under-unbounded-repetition", "nullable-or-unit-derivation-cycle",
                                                     "nullable-body-under-repetition"))
    if "nullable-body-under-unbounded-repetition" in mech_parts and "nullable-body-under-repetition" in mech_parts:
        mech_parts.remove("nullable-body-under-repetition")
    mech = "+".join(mech_parts) if mech_parts else None
    left_rec = specgen.has_left_recursion(model)
    binary = model.binary
    alpha = inputs.alphabet(model)
    alpha = alpha[:3] + alpha[-1:]
    strings = inputs.all_strings(alpha, c["maxlen"])
    rng.shuffle(strings)
    strings = strings[:60]
    if c["profile"] == "computed-rep":
        strings = computed_rep_inputs(rng, 40) + strings[:8]
    nontrivial_grammar = any(e[0] == "rep" for e in model.all_exprs()) or "recursion" in specgen.syntactic_features(model.rules)
    diverged = 0
    be0 = loops.L.backedges
    loops.L.max_spin = 0
    for s in strings:
        try:
            inp = s.encode("latin-1") if binary else s
        except UnicodeEncodeError:
            continue
        for kind in ("first", "forest", "prefix", "other-start"):
            st = "<start>"
            if kind == "other-start":
                if len(names) < 2:
                    continue
                st = rng.choice(names[1:])
            steps.reset(budget=BUDGET, track=True, input_len=len(inp))
            loops.reset()
            stats["requests"] += 1
            distinct.add((repr(inp), kind))
            try:
                if kind == "first" or kind == "other-start":
                    f.grammar.parse(inp, st)
                elif kind == "forest":
                    n = 0
                    for t in f.grammar.parse_forest(inp, st):
                        steps.tick_output()
                        n += 1
                        if n >= 200:
                            break
                else:
                    n = 0
                    for t in f.grammar.parse_forest(inp, st, mode=ParsingMode.INCOMPLETE):
                        steps.tick_output()
                        n += 1
                        # The forest of a prefix-mode request is in general infinite (every way of leaving repetitions
                        # unfinished), and each further tree legitimately costs more than the one before: a fixed
                        # per-output budget is only meaningful for the first outputs ("the request returns").
                        if n >= 3:
                            break
            except steps.StepBudgetExceeded:
                w = steps.witness()
                if w is None:
                    stats["budget_exceeded_no_witness"] += 1
                else:
                    diverged += 1
                    stats["diverged"] += 1
                    if len(violations) < 3:
                        m_ = mech
                        if kind == "prefix" and left_rec:
                            m_ = (mech + "+" if mech else "") + "prefix-mode-left-recursion"
                        violations.append({"what": f"{kind} request on input {inp!r} from {st}: > {BUDGET} states admitted without output; "
                                                   f"core {w['core']} admitted {w['admissions']}x into one column, children {w['children_len_first']} -> {w['children_len_last']}",
                                           "mech": m_, "witness": w, "grammar_features": sorted(gfeats) + (["left-recursion"] if left_rec else [])})
                # the parser object may be left mid-parse; a fresh one avoids knock-on effects
                f = Fandango(text, use_stdlib=False)
            except loops.TightLoop as e:
                diverged += 1
                stats["diverged_no_progress_loop"] += 1
                w = e.witness
                if len(violations) < 3:
                    violations.append({"what": f"{kind} request on input {inp!r} from {st}: {w['function']} ({w['file']}:{w['line']}) took one loop back-edge "
                                               f"{w['back_edge_taken']}x without admitting a state, returning or yielding "
                                               f"({w['states_admitted_in_request']} states admitted in the whole request)",
                                       "mech": None, "witness": w, "grammar_features": sorted(gfeats) + (["left-recursion"] if left_rec else [])})
                f = Fandango(text, use_stdlib=False)
            except Exception as e:
                stats["raised:" + type(e).__name__] += 1
            stats["max_admissions"] = max(stats["max_admissions"], steps.S.count)
        if diverged >= 6:
            break
    # fuzzing steps that parse internally (equality repair) under the same clock
    if c["profile"] not in ("handwritten", "computed-rep") and not diverged:
        ws = model.words("<start>", max_len=4, cap=10)
        if ws:
            conv = "bytes" if binary else "str"
            w0 = inputs.to_input(rng.choice(ws), binary)
            if w0 is not None:
                try:
                    f2 = Fandango(text + f"where {conv}(<start>) == {w0!r}\n", use_stdlib=False)
                    steps.reset(budget=BUDGET * 40, track=True)
                    stats["fuzz_runs_with_internal_parsing"] += 1
                    f2.fuzz(desired_solutions=1, max_generations=2, population_size=6, random_seed=1)
                except steps.StepBudgetExceeded:
                    w = steps.witness()
                    if w is not None:
                        violations.append({"what": f"fuzz with equality repair: internal parse admitted > {BUDGET*40} states; core {w['core']} x{w['admissions']}",
                                           "mech": mech, "witness": w})
                    else:
                        stats["budget_exceeded_no_witness"] += 1
                except Exception as e:
                    stats["fuzz_raised:" + type(e).__name__] += 1
    stats["evaluations"] = stats["requests"]
    stats["loop_back_edges_observed"] = loops.L.backedges - be0
    stats["cases_max_no_progress_spin_over_10000"] = 1 if loops.L.max_spin > 10000 else 0
    for k in gfeats:
        stats["gfeat:" + k] = 1
    # max is not additive: report through a separate key the runner will sum; keep per-case max in sample
    mx = stats.pop("max_admissions", 0)
    stats["cases_max_admissions_over_1500"] = 1 if (mx > 1500 and not diverged) else 0
    res = {"status": "violation" if violations else "ok", "violations": violations, "stats": dict(stats),
           "nontrivial": nontrivial_grammar, "distinct_keys": [[c["key"], a, b] for a, b in sorted(distinct)]}
    if hash(c["key"]) % 16 == 0 or violations:
        res["sample"] = {"spec": text, "inputs": strings[:6], "max_admissions_per_output": mx, "diverged_requests": diverged}
    return res
