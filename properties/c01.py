"""C01 -- every produced tree is a derivation of the spec's grammar."""
import random

ID = "C01"
LEVEL = "exploration"
RULE = ("cases: (generated grammar | harvested spec) x workload (plain Grammar.fuzz over node budgets and start symbols; "
        "evolutionary search with constraints that force crossover, mutation, equality repair and repetition insertion/deletion) x seed. "
        "Every tree handed out by Grammar.fuzz, by the initial-population/crossover/mutation/repair operators and every emitted solution "
        "is judged by the reference derivation checker (built from /verif's own AST for generated grammars) and its leaf word by the "
        "reference recogniser. Non-trivial: >= 1 checked tree came from a non-initial operator, or (plain fuzz) >= 1 tree with >= 2 leaves. "
        "Distinct by (spec, workload, seed).")
TIMEOUTS = {"quick": (60, 420), "thorough": (120, 2400)}
MIN = {"quick": {"cases": 120, "nontrivial": 60, "observed": {"trees_checked": 5000, "op:crossover": 50, "op:mutation": 20, "op:repair": 50}},
       "thorough": {"cases": 1500, "nontrivial": 700, "observed": {"trees_checked": 80000, "op:crossover": 500, "op:mutation": 200, "op:repair": 500}}}
ASSUMPTIONS = ["grammar settings that deliberately leave the grammar (havoc etc.) are never set",
               "computed repetition counts are required of solutions only (C02); here they are read as {0,}",
               "third-party exrex/regex behaviour is part of the observed system; regex terminals come from a self-tested table"]

PROFILES = [
    ("text", dict(kind="text")),
    ("text-deep", dict(kind="text", depth=4, max_nts=5, recursion=0.5)),
    ("text-noregex", dict(kind="text", regex=0.0, max_rep=6)),
    ("bytes", dict(kind="bytes")),
    ("bits", dict(kind="bits")),
    ("mixed", dict(kind="mixed")),
    ("text-undelimited", dict(kind="text", regex=0.5, regex_delimited=False)),
]


def cases(tier, seed):
    rng = random.Random(1000 + seed)
    out = []
    n_gen = 160 if tier == "quick" else 2400
    for i in range(n_gen):
        pname, _ = PROFILES[i % len(PROFILES)]
        wl = ["plain", "search-len", "search-eq", "search-rep", "search-mix"][i % 5]
        out.append({"key": f"gen-{pname}-{i}-{wl}", "kind": "gen", "profile": pname, "gseed": rng.randrange(1 << 30),
                    "workload": wl, "seed": rng.randrange(1 << 30)})
    from vf.gen import harvest

    files = harvest.safe_complete_specs()
    k = 0
    for f in files:
        reps = 1 if tier == "quick" else 4
        for r_ in range(reps):
            out.append({"key": f"harvest-{f.split('/repo/')[-1]}-{r_}", "kind": "harvest", "file": f,
                        "seed": rng.randrange(1 << 30), "workload": "search" if k % 2 == 0 else "plain+search"})
        k += 1
    return out


def setup():
    from vf.monitors import operators, accept

    operators.install()
    accept.install()


def _build_generated(c):
    from vf.gen import specgen
    from vf.ref.grammar_model import RefGrammar

    prof = dict(PROFILES)[c["profile"]]
    rng = random.Random(c["gseed"])
    rules, feats, model = specgen.random_grammar(rng, specgen.Profile(**prof))
    wl = c["workload"]
    constraints = []
    settings = dict(population_size=rng.choice([1, 2, 5, 10, 20, 50]), max_nodes=rng.choice([1, 3, 10, 30, 100, 200]),
                    max_generations=rng.choice([2, 3, 5]), desired_solutions=rng.choice([1, 5, 20]))
    names = list(rules)
    if wl in ("search-rep", "search-mix"):
        # wrap: <start> ::= <cnt> <body>{int(<cnt>)} ; the old start becomes <body0>
        from collections import OrderedDict

        new = OrderedDict()
        # the repeated body is a single symbol or a multi-child group (an insertion / deletion at a wrong
        # child index is only visible with the latter)
        sep = ("lit", b";") if model.binary else ("lit", ";")
        rep_body = rng.choice([("nt", "<body0>"), ("seq", (("nt", "<body0>"), sep)), ("seq", (sep, ("nt", "<body0>"), sep))])
        new["<start>"] = ("seq", (("nt", "<cnt>"), ("rep", rep_body, 0, None, "int(<cnt>)"), sep))
        new["<cnt>"] = ("alt", tuple(("lit", str(d) if model.binary is False else str(d)) for d in (0, 1, 2, 3, 5)))
        for n, e in rules.items():
            new["<body0>" if n == "<start>" else n] = _rename(e, "<start>", "<body0>")
        rules = new
        model = RefGrammar(specgen.model_rules(rules))
        feats = feats | {"computed-repetition"}
        names = list(rules)
    if wl in ("search-len", "search-mix"):
        k = rng.choice([0, 3, 8, 20, 60])
        op = rng.choice([">", "<", ">=", "!="])
        conv = "bytes" if model.binary else "str"
        constraints.append(f"len({conv}(<start>)) {op} {k}")
    if wl in ("search-eq", "search-mix"):
        target = rng.choice(names)
        ws = model.words(target, max_len=6, cap=40)
        lit = None
        if ws and rng.random() < 0.8:
            w = rng.choice(ws)
            if model.binary:
                if len(w) % 8 == 0:
                    lit = repr(bytes(int(w[i:i + 8], 2) for i in range(0, len(w), 8)))
                    conv = "bytes"
            else:
                lit = repr(w)
                conv = "str"
        if lit is None:
            lit, conv = (repr("no-such-word"), "str") if not model.binary else (repr(b"\x07\x07\x07"), "bytes")
        if rng.random() < 0.5:
            constraints.append(f"{conv}({target}) == {lit}")
        else:
            constraints.append(f"{target} == {lit}")
    text = specgen.to_spec(rules, constraints=constraints)
    return text, model, feats, settings, names


def _rename(e, a, b):
    k = e[0]
    if k == "nt":
        return ("nt", b) if e[1] == a else e
    if k in ("seq", "alt"):
        return (k, tuple(_rename(c, a, b) for c in e[1]))
    if k == "rep":
        return ("rep", _rename(e[1], a, b)) + tuple(e[2:])
    return e


def _judge(tree, model, start, where, violations, stats, seen):
    from vf.trees import pretty
    from vf.ref import treeval

    key = id(tree)
    if key in seen:
        return
    seen.add(key)
    stats["trees_checked"] += 1
    probs = model.check_tree(tree, start)
    if probs:
        from vf import findings

        mechs = {findings.c01_invalid_tree(model, p) for p in probs}
        mech = mechs.pop() if len(mechs) == 1 else None
        violations.append({"what": f"{where}: tree is not a derivation from {start}: {probs[0][1]} at path {list(probs[0][0])}",
                           "tree": pretty(tree)[:600], "mech": mech})
        return
    w = treeval.word_of(tree, model.binary)
    if w is None:
        violations.append({"what": f"{where}: leaf kinds do not fit the grammar class (bits in a text grammar)", "tree": pretty(tree)[:600], "mech": None})
        return
    if len(w) <= 400:
        stats["words_recognised"] += 1
        if not model.accepts(w, start):
            violations.append({"what": f"{where}: word {w[:120]!r} of a structurally valid tree is rejected by the reference recogniser",
                               "tree": pretty(tree)[:600], "mech": "checker-recogniser-disagree"})


def run_case(c):
    from collections import Counter
    from fandango import Fandango
    from vf.monitors import operators, accept
    from vf import hooks
    from vf.trees import leaves
    from vf.ref.grammar_model import from_fandango

    operators.reset()
    accept.reset()
    stats = Counter()
    violations = []
    seen = set()
    before = Counter(hooks.COUNTS)
    rng = random.Random(c["seed"])
    if c["kind"] == "gen":
        text, model, feats, settings, names = _build_generated(c)
        f = Fandango(text, use_stdlib=False)
        start = "<start>"
    else:
        from vf.gen import harvest

        f, text = harvest.try_load(c["file"])
        if f is None:
            return {"status": "ok", "stats": {"spec_unloadable": 1}, "nontrivial": False}
        model = from_fandango(f.grammar)
        feats = set()
        settings = dict(population_size=rng.choice([5, 10, 20]), max_nodes=rng.choice([30, 100, 200]),
                        max_generations=rng.choice([2, 4]), desired_solutions=rng.choice([5, 20]))
        names = [n for n in model.rules if not n.startswith("<_")]
        start = "<start>"
    nontrivial = False
    wl = c["workload"]
    if wl.startswith("plain"):
        random.seed(c["seed"])
        for budget in (1, 2, 5, 20, 80, 200):
            for _ in range(6 if c["kind"] == "gen" else 3):
                st = start if rng.random() < 0.6 else rng.choice(names)
                if st not in model.rules:
                    continue
                t = f.grammar.fuzz(st, max_nodes=budget)
                _judge(t, model, st, f"Grammar.fuzz({st}, max_nodes={budget})", violations, stats, seen)
                stats["plain_fuzz_trees"] += 1
                if len(leaves(t)) >= 2:
                    nontrivial = True
    if wl != "plain":
        try:
            sols = f.fuzz(random_seed=c["seed"] & 0xFFFF, **settings)
        except Exception as e:  # an exception escaping the API says nothing about C01; judge what was produced
            sols = []
            stats["search_raised"] += 1
            stats["search_raised:" + type(e).__name__] += 1
        stats["search_runs"] += 1
        stats["solutions"] += len(sols)
        for op, t in operators.OUTPUTS:
            _judge(t, model, start, f"operator {op}", violations, stats, seen)
            stats["out:" + op] += 1
            if op != "initial":
                nontrivial = True
        for t in sols:
            _judge(t, model, start, "emitted solution", violations, stats, seen)
        # members of the final population
        for t in (f.fandango.population if f.fandango else []):
            _judge(t, model, start, "final population member", violations, stats, seen)
    for v in accept.VIOLATIONS:
        violations.append({"what": "C03 online monitor: " + v["what"], "mech": "c03-online", "witness": v})
    after = hooks.COUNTS
    for k in after:
        if k.startswith("op:"):
            stats[k] += after[k] - before.get(k, 0)
    stats["evaluations"] = stats["trees_checked"]
    res = {"status": "violation" if violations else "ok", "violations": violations[:5], "stats": dict(stats),
           "nontrivial": nontrivial, "distinct_key": c["key"]}
    if c["kind"] == "gen":
        for ft in feats:
            res["stats"]["feat:" + ft] = 1
        if hash(c["key"]) % 40 == 0 or violations:
            res["sample"] = {"spec": text, "workload": wl, "settings": settings, "trees_checked": stats["trees_checked"]}
    return res
