"""C12 -- parse results do not depend on earlier parse calls."""
import itertools
import random

ID = "C12"
LEVEL = "exploration"
RULE = ("cases: generated grammar (ambiguous and unambiguous, text / bytes / bits, computed repetitions) x pool of <= 6 inputs x random histories "
        "(length 3-25) of requests on ONE spec object: first-tree parse, full forest, forest abandoned after k trees, parse_multiple, other start symbols, "
        "prefix mode, include_controlflow on/off, API parse, interleaved fuzz runs that parse internally (equality repair), in-place edits of returned trees "
        "(children, symbols, repetition tags). Each result is compared with the result of the same request on a fresh spec object (sequence of canonical "
        "dumps: symbols, shape, parties, repetition tags up to renaming of iteration numbers). Non-trivial: history has >= 2 requests sharing an input; "
        "distinct by (grammar, history).")
TIMEOUTS = {"quick": (90, 420), "thorough": (300, 2400)}
MIN = {"quick": {"cases": 100, "nontrivial": 800, "observed": {"requests_compared": 8000, "repeat_requests": 3000, "ambiguous_results": 300}},
       "thorough": {"cases": 700, "nontrivial": 6000, "observed": {"requests_compared": 60000}}}
ASSUMPTIONS = ["a fresh spec object built from the same text is the reference; iteration numbers inside repetition tags are compared up to renaming"]

PROFILES = [
    ("text-ambiguous", dict(kind="text", regex=0.2, regex_delimited=False, max_rep=3, max_nts=3)),
    ("text", dict(kind="text")),
    ("literal-ambiguous", None),
    ("bytes", dict(kind="bytes")),
    ("bits", dict(kind="bits", max_nts=2)),
    ("mixed", dict(kind="mixed")),
    ("computed", "computed"),
]

AMBIGUOUS = [
    "<start> ::= <a>*\n<a> ::= 'a' | 'aa' | 'a' 'a'\n",
    "<start> ::= <x> <x>\n<x> ::= 'a'{0,2} | 'b'\n",
    "<start> ::= ('a' | 'ab') ('bc' | 'c') | <y>\n<y> ::= 'a' 'b' 'c' | 'abc'\n",
    "<start> ::= <e>\n<e> ::= <e> '+' <e> | 'n'\n",
    "<start> ::= ('x' | <b>){1,4}\n<b> ::= 'x'{1,2}\n",
    "<start> ::= <p> | <q>\n<p> ::= 'a'+ 'b'*\n<q> ::= 'a'* 'b'+ | 'a'+\n",
]
AMBIGUOUS_INPUTS = [["a", "aa", "aaa", "aaaa", ""], ["aa", "ab", "aaa", "bb", "aaaa"], ["abc", "ab", "abcc"],
                    ["n+n", "n+n+n", "n+n+n+n", "n"], ["x", "xx", "xxx", "xxxx"], ["a", "ab", "aab", "abb", "b"]]
COMPUTED = [
    ("<start> ::= <n> <x>{int(<n>)} <y>*\n<n> ::= '1' | '2' | '3'\n<x> ::= 'a' | 'aa'\n<y> ::= 'a'\n", ["1a", "2aa", "2aaa", "3aaaa", "1"]),
    ("<start> ::= <len> <item>{int(<len>)}\n<len> ::= r'[0-3]'\n<item> ::= 'x' | 'y' 'z'?\n", ["0", "1x", "2xyz", "3yzyx", "2x"]),
    # the repetition sits in a nonterminal of its own: a <body> fragment can only be parsed with a context tree (hookin_parent)
    ("<start> ::= <len> <body>\n<len> ::= r'[0-3]'\n<body> ::= <item>{int(<len>)}\n<item> ::= 'x' | 'y'\n", ["3xyx", "2xy", "xyx", "yy", "x", "1y", "xxx"]),
]


def cases(tier, seed):
    rng = random.Random(12000 + seed)
    n = 140 if tier == "quick" else 900
    out = []
    for i in range(n):
        p = PROFILES[i % len(PROFILES)][0]
        out.append({"key": f"{p}-{i}", "profile": p, "idx": i // len(PROFILES), "gseed": rng.randrange(1 << 30),
                    "seed": rng.randrange(1 << 30), "histories": 8 if tier == "quick" else 20})
    return out


def setup():
    from vf.monitors import steps

    steps.install()


def norm_dump(tree):
    """canonical dump with repetition tags renamed by first occurrence"""
    from vf.trees import sym_key

    ren = {}

    def go(t):
        tags = []
        for tag in t.origin_repetitions:
            try:
                rid, it, idx = tag
            except Exception:
                tags.append(("?", repr(tag)))
                continue
            k = (rid, it)
            if k not in ren:
                ren[k] = len(ren)
            tags.append((rid.split("_")[0] if isinstance(rid, str) else rid, ren[k], idx))
        return (sym_key(t.symbol), t.sender, t.recipient, tuple(tags), tuple(go(c) for c in t._children))

    return repr(go(tree))


def run_request(f, req):
    from fandango.language.grammar import ParsingMode

    inp, start, mode, cf, kind, k = req
    pm = ParsingMode.INCOMPLETE if mode == "prefix" else ParsingMode.COMPLETE
    if kind == "first":
        t = f.grammar.parse(inp, start, mode=pm, include_controlflow=cf)
        return [t] if t is not None else []
    if kind == "forest":
        return list(itertools.islice(f.grammar.parse_forest(inp, start, mode=pm, include_controlflow=cf), 60))
    if kind == "abandon":
        g = f.grammar.parse_forest(inp, start, mode=pm, include_controlflow=cf)
        out = list(itertools.islice(g, k))
        del g
        return out
    if kind == "multiple":
        return list(itertools.islice(f.grammar.parse_multiple(inp, start, mode=pm, include_controlflow=cf), 60))
    if kind == "api":
        return list(itertools.islice(f.parse(inp, prefix=(mode == "prefix")), 60))
    if kind == "hooked":
        # a fragment parsed in the context of a tree that holds the symbol its computed repetition refers to
        from fandango.language.symbols import NonTerminal
        from fandango.language.tree import DerivationTree

        lt = f.grammar.parse(str(k), "<len>")
        ctx = DerivationTree(NonTerminal("<start>"), [lt] if lt is not None else [])
        t = f.grammar.parse(inp, "<body>", mode=pm, hookin_parent=ctx)
        return [t] if t is not None else []
    raise ValueError(kind)


def edit_in_place(trees, rng):
    from fandango.language.symbols import NonTerminal, Terminal

    for t in trees:
        nodes = t.flatten()
        for _ in range(2):
            n = rng.choice(nodes)
            what = rng.choice(["children", "symbol", "tags", "addchild"])
            try:
                if what == "children":
                    n.set_children([])
                elif what == "symbol":
                    n.symbol = NonTerminal("<edited>") if n.symbol.is_non_terminal else Terminal("EDITED")
                elif what == "tags":
                    if n.origin_repetitions:
                        n.origin_repetitions[0] = ("edited", 999, 999)
                    n.origin_repetitions.append(("edited", 1, 1))
                else:
                    from fandango.language.tree import DerivationTree

                    n.add_child(DerivationTree(Terminal("EXTRA")))
            except Exception:
                pass


def run_case(c):
    from collections import Counter
    from fandango import Fandango
    from vf.gen import specgen, inputs
    from vf.monitors import steps
    from vf.ref.grammar_model import RefGrammar, from_fandango

    rng = random.Random(c["seed"])
    stats = Counter()
    violations = []
    prof = dict(PROFILES)[c["profile"]]
    if c["profile"] == "literal-ambiguous":
        i = c["idx"] % len(AMBIGUOUS)
        text, pool = AMBIGUOUS[i], list(AMBIGUOUS_INPUTS[i])
        model = None
        starts = ["<start>"]
    elif c["profile"] == "computed":
        text, pool = COMPUTED[c["idx"] % len(COMPUTED)]
        pool = list(pool)
        model = None
        starts = ["<start>"]
    else:
        rules, feats, model = specgen.random_grammar(random.Random(c["gseed"]), specgen.Profile(**prof))
        text = specgen.to_spec(rules)
        ws = model.words("<start>", max_len=8 if not model.binary else 5, cap=200)
        rng.shuffle(ws)
        pool = []
        for w in ws[:4]:
            inp = inputs.to_input(w, model.binary)
            if inp is not None:
                pool.append(inp)
        alpha = inputs.alphabet(model)
        for inp in list(pool[:2]):
            t0 = inp.decode("latin-1") if model.binary else inp
            for nm in inputs.near_misses(t0, rng, alpha, n=1):
                try:
                    pool.append(nm.encode("latin-1") if model.binary else nm)
                except UnicodeEncodeError:
                    pass
        starts = list(rules)[:2]
        if model.binary:
            # the same inputs handed over as text and as bytes on one object (the reference - a fresh object - defines what
            # either kind of request yields, including which exception)
            for inp in list(pool[:3]):
                if isinstance(inp, bytes):
                    pool.append(inp.decode("latin-1"))
        elif rng.random() < 0.3:
            for inp in list(pool[:2]):
                try:
                    pool.append(inp.encode("latin-1"))
                except UnicodeEncodeError:
                    pass
    if not pool:
        return {"status": "ok", "stats": {"no_inputs": 1}, "nontrivial": False}
    conv = "bytes" if (model is not None and model.binary) else "str"
    eq_target = pool[0]
    fuzz_text = text + f"where {conv}(<start>) == {eq_target!r}\n"

    def fresh():
        return Fandango(text, use_stdlib=False)

    ref_cache = {}

    def reference(req):
        key = repr(req)
        if key not in ref_cache:
            steps.reset(budget=400000)
            try:
                ref_cache[key] = ("ok", [norm_dump(t) for t in run_request(fresh(), req)])
            except steps.StepBudgetExceeded:
                ref_cache[key] = ("budget", None)
            except Exception as e:
                ref_cache[key] = ("raised", type(e).__name__)
        return ref_cache[key]

    distinct = 0
    for h in range(c["histories"]):
        f = fresh()
        f_fuzz = None
        hist = []
        seen_inputs = Counter()
        L = rng.randint(3, 25)
        bad = False
        for step in range(L):
            r = rng.random()
            if r < 0.08:
                # interleaved fuzz run on the same grammar object (internal parses for equality repair)
                try:
                    steps.reset(budget=2000000)
                    f.fuzz(extra_constraints=[f"{conv}(<start>) == {eq_target!r}"], desired_solutions=1, max_generations=1,
                           population_size=4, random_seed=rng.randrange(1000))
                    stats["interleaved_fuzz_runs"] += 1
                    hist.append("fuzz")
                except BaseException as e:
                    if isinstance(e, (KeyboardInterrupt,)) or type(e).__name__ == "CaseTimeout":
                        raise
                    stats["fuzz_raised"] += 1
                continue
            inp = rng.choice(pool)
            start = rng.choice(starts) if rng.random() < 0.2 else "<start>"
            mode = "prefix" if rng.random() < 0.15 else "complete"
            cf = rng.random() < 0.2
            kind = rng.choice(["first", "first", "forest", "forest", "abandon", "multiple", "api"])
            if kind == "api" and (start != "<start>" or cf):
                kind = "forest"
            if "<body> ::=" in text and "<len> ::=" in text:
                r2 = rng.random()
                if r2 < 0.2:
                    kind, start, cf = "hooked", "<body>", False
                    stats["hooked_requests"] += 1
                elif r2 < 0.5:
                    start = "<body>"        # the same fragment WITHOUT a context tree
            k = rng.randint(1, 3)
            req = (inp, start, mode, cf, kind, k)
            ref = reference(req)
            if ref[0] == "budget":
                stats["requests_budget"] += 1
                continue
            steps.reset(budget=400000)
            try:
                got_trees = run_request(f, req)
                got = ("ok", [norm_dump(t) for t in got_trees])
            except steps.StepBudgetExceeded:
                stats["requests_budget"] += 1
                f = fresh()
                continue
            except Exception as e:
                got = ("raised", type(e).__name__)
                got_trees = []
            stats["requests_compared"] += 1
            if seen_inputs[(repr(inp), start)] > 0:
                stats["repeat_requests"] += 1
            seen_inputs[(repr(inp), start)] += 1
            hist.append([repr(inp), start, mode, cf, kind, k])
            if ref[0] == "ok" and len(ref[1]) > 1:
                stats["ambiguous_results"] += 1
            same = got == ref
            if kind == "abandon" and got[0] == "ok" and ref[0] == "ok":
                same = got[1] == ref[1][:len(got[1])] and len(got[1]) == min(k, len(ref[1]))
            if not same:
                def brief(x):
                    return f"{len(x[1])} trees" if x[0] == "ok" else f"{x[0]} {x[1]}"
                detail = ""
                if got[0] == "ok" and ref[0] == "ok" and len(got[1]) == len(ref[1]):
                    detail = " (same number of trees, different trees/order/tags)"
                violations.append({"what": f"request {req!r} after history {hist[:-1][-6:]!r}: {brief(got)}, fresh object: {brief(ref)}{detail}",
                                   "mech": None, "history": hist})
                bad = True
                break
            if got_trees and rng.random() < 0.4:
                edit_in_place(got_trees, rng)
                stats["in_place_edits"] += 1
                hist.append("edit")
        if any(v > 1 for v in seen_inputs.values()):
            distinct += 1
        stats["histories"] += 1
        if bad and len(violations) >= 3:
            break
    stats["evaluations"] = stats["requests_compared"]
    res = {"status": "violation" if violations else "ok", "violations": violations[:3], "stats": dict(stats),
           "nontrivial": distinct > 0, "distinct_count": distinct}
    if hash(c["key"]) % 20 == 0 or violations:
        res["sample"] = {"spec": text, "inputs": [repr(p) for p in pool], "last_history": hist[-8:]}
    return res
