"""C16 -- generator-defined fields carry generator output and are not edited behind it."""
import random

ID = "C16"
LEVEL = "exploration"
RULE = ("cases: spec template with generators (constant, random high-entropy, dependent on one or two other symbols, chained, inside computed repetitions, "
        "misfitting with some probability) x constraints that push mutation / crossover / repair onto generated fields and onto their arguments x search "
        "settings x seed. Event log: every call of Grammar.generate_string (symbol, argument texts, returned value | exception). For every tree produced by "
        "the operators and every emitted solution, every node N with is_use_generator(N) must have str(N) equal to a logged return for N's symbol and the "
        "argument texts recorded in N.sources, and N's children must derive N's rule; a misfitting value must never be followed by a tree for that "
        "expansion. Non-trivial: >= 1 generator node observed in a tree produced by a non-initial operator; distinct by (spec, seed).")
TIMEOUTS = {"quick": (60, 300), "thorough": (180, 2400)}
MIN = {"quick": {"cases": 300, "nontrivial": 200, "observed": {"generator_nodes_checked": 20000, "generator_events": 6000, "nodes_after_noninitial_operator": 8000,
                                                                "misfit_events": 20}},
       "thorough": {"cases": 1500, "nontrivial": 900, "observed": {"generator_nodes_checked": 300000}}}
ASSUMPTIONS = ["generators return high-entropy values (random digits, hashes of their arguments) so that an edited or foreign text cannot coincide with a logged return by accident",
               "trees obtained by parsing (sources derived through inverse generators) are not subject to the text oracle"]
EVENTS = []

PRELUDE = '''
import random, hashlib
def rnd(n=8):
    return "".join(random.choice("0123456789") for _ in range(n))
def h1(a, n=6):
    return str(int(hashlib.sha256(str(a).encode()).hexdigest(), 16))[:n]
def h2(a, b, n=6):
    return str(int(hashlib.sha256((str(a) + "|" + str(b)).encode()).hexdigest(), 16))[:n]
def encode(p):
    s = str(p)[:-1]
    return "".join(chr(ord("a") + int(c)) for c in s) or "a"
def decode(e):
    ds = [ord(c) - ord("a") for c in str(e)]
    return "".join(map(str, ds)) + str(sum(ds) % 10)
def misfit(p):
    if random.random() < p:
        return "x" + rnd(2)
    return rnd(3)
'''
DIG = "<digit> ::= '0'|'1'|'2'|'3'|'4'|'5'|'6'|'7'|'8'|'9'\n"
TEMPLATES = {
    "id-ck": ("<start> ::= <id> ':' <payload> ':' <ck>\n<id> ::= <digit>{8} := rnd()\n<payload> ::= <digit>+\n<ck> ::= <digit>{6} := h1(<payload>)\n" + DIG,
              ["int(<payload>) % 7 == 3", "len(str(<payload>)) >= 3", "str(<payload>).startswith('1')", "int(<start>.<payload>) > 50"]),
    "chain": ("<start> ::= <a> '-' <tail>\n<a> ::= <digit>{6} := h1(<b>)\n<b> ::= <digit>{6} := h1(<c>)\n<c> ::= <digit>{2,4}\n<tail> ::= <digit>+\n" + DIG,
              ["int(<tail>) % 5 == 2", "len(str(<tail>)) > 2", "int(<tail>) > 100"]),
    "two-args": ("<start> ::= <x> ',' <y> ',' <ck>\n<x> ::= <digit>+\n<y> ::= <digit>{2}\n<ck> ::= <digit>{6} := h2(<x>, <y>)\n" + DIG,
                 ["int(<x>) % 3 == 1", "int(<start>.<y>) > 40", "len(str(<x>)) == 3"]),
    "const": ("<start> ::= <k> <body> <id>\n<k> ::= r'[a-z]+' := 'magic'\n<body> ::= <digit>+\n<id> ::= <digit>{8} := rnd()\n" + DIG,
              ["int(<body>) % 9 == 4", "len(str(<body>)) >= 2"]),
    "in-rep": ("<start> ::= <n> <item>{int(<n>)}\n<n> ::= '1'|'2'|'3'\n<item> ::= '[' <id> ':' <v> ']'\n<id> ::= <digit>{8} := rnd()\n<v> ::= <digit>+\n" + DIG,
               ["int(<v>) % 4 == 1", "int(<n>) >= 2", "len(str(<v>)) <= 3"]),
    # two generator-defined symbols that are converters of each other, both also used on their own
    "converter": ("<start> ::= <rec>+\n<rec> ::= <enc> '=' <plain> ':' <val> ';'\n<enc> ::= <letter>+ := encode(<plain>)\n<plain> ::= <digit>+ := decode(<enc>)\n"
                  "<letter> ::= 'a'|'b'|'c'|'d'|'e'|'f'|'g'|'h'|'i'|'j'\n<val> ::= <digit>+\n" + DIG,
                  ["int(<val>) % 7 == 3", "len(str(<val>)) >= 2", "int(<val>) > 50"]),
    # generator output that parses several nonterminal levels deep, its inner symbols also used by ordinary fields
    "deep": ("<start> ::= <tag> ':' <code> ':' <tail>\n<tag> ::= <digit>+\n<code> ::= <pair>{4} := rnd()\n<pair> ::= <digit> <digit>\n<tail> ::= <pair>+\n" + DIG,
             ["int(<tag>) % 7 == 3", "len(str(<tail>)) >= 4", "int(<tag>) > 50", "str(<tail>).startswith('1')"]),
    "misfit": ("<start> ::= <id> ':' <body>\n<id> ::= <digit>{3} := misfit(0.3)\n<body> ::= <digit>+\n" + DIG,
               ["int(<body>) % 11 == 4", "len(str(<body>)) >= 2"]),
}


def _encode(p):
    return "".join(chr(ord("a") + int(ch)) for ch in str(p)[:-1]) or "a"


def _decode(e):
    ds = [ord(ch) - ord("a") for ch in str(e)]
    return "".join(map(str, ds)) + str(sum(ds) % 10)


def cases(tier, seed):
    rng = random.Random(16000 + seed)
    n = 480 if tier == "quick" else 4800
    names = list(TEMPLATES)
    return [{"key": f"{names[i % len(names)]}-{i}", "t": names[i % len(names)], "seed": rng.randrange(1 << 30)} for i in range(n)]


def setup():
    from vf import hooks
    from vf.monitors import operators
    from fandango.language.grammar.grammar import Grammar

    operators.install()

    def mk(orig):
        def generate_string(self, symbol="<start>", sources=None):
            name = symbol if isinstance(symbol, str) else symbol.name()
            try:
                srcs, val = orig(self, symbol, sources)
            except Exception as e:
                EVENTS.append((name, None, ("exc", type(e).__name__)))
                raise
            EVENTS.append((name, tuple(sorted(str(s) for s in srcs)), ("ret", str(val) if not isinstance(val, bytes) else val.decode("latin-1"))))
            hooks.count("generate_string")
            return srcs, val
        return generate_string

    hooks.wrap_attr(Grammar, "generate_string", mk)


def run_case(c):
    from collections import Counter
    from fandango import Fandango
    from vf.monitors import operators
    from vf.ref.grammar_model import from_fandango
    from vf.trees import pretty
    from vf import hooks

    rng = random.Random(c["seed"])
    stats = Counter()
    violations = []
    body, cons = TEMPLATES[c["t"]]
    chosen = rng.sample(cons, rng.randint(1, min(2, len(cons))))
    spec = PRELUDE + body + "".join("where " + x + "\n" for x in chosen)
    settings = dict(population_size=rng.choice([5, 10, 20]), max_generations=rng.choice([3, 6, 10]),
                    desired_solutions=rng.choice([5, 20]), max_nodes=rng.choice([50, 100]))
    EVENTS.clear()
    operators.reset()
    try:
        f = Fandango(spec, use_stdlib=False)
    except Exception as e:
        return {"status": "inconclusive", "reason": f"template rejected: {type(e).__name__}: {e}"}
    model = from_fandango(f.grammar)
    raised = None
    try:
        sols = f.fuzz(random_seed=c["seed"] & 0xFFFF, **settings)
    except Exception as e:
        sols = []
        raised = type(e).__name__
        stats["run_raised:" + raised] += 1
    evset = {}
    for name, srcs, out in EVENTS:
        if out[0] == "ret":
            evset.setdefault(name, set()).add((srcs, out[1]))
    stats["generator_events"] = len(EVENTS)
    misfits = [e for e in EVENTS if e[0] == "<id>" and c["t"] == "misfit" and e[2][0] == "ret" and e[2][1].startswith("x")]
    stats["misfit_events"] = len(misfits)
    seen = set()
    nontrivial = False

    first_bad = [None]
    import re as _re
    deps = {}
    for line in body.splitlines():
        if ":=" in line and "::=" in line:
            deps[line.split("::=")[0].strip()] = set(_re.findall(r"<[a-z_0-9]+>", line.split(":=", 1)[1].split("::=")[-1] if False else line.rsplit(":=", 1)[1]))

    def judge(t, where, nonin, where_op=None):
        nonlocal nontrivial
        if id(t) in seen:
            return
        seen.add(id(t))
        for n in t.flatten():
            if not n.symbol.is_non_terminal or n.symbol not in f.grammar.generators:
                continue
            # generator-defined here? decided from the spec text, not by asking fandango: a generator is switched off only
            # below one of its own argument symbols (the production of the argument itself)
            anc = set()
            p_ = n._parent
            while p_ is not None:
                anc.add(p_.symbol.name())
                p_ = p_._parent
            use = not (anc & deps.get(n.symbol.name(), set()))
            try:
                if bool(f.grammar.is_use_generator(n)) != use:
                    stats["is_use_generator_disagrees_with_spec_text"] += 1
            except Exception:
                pass
            if not use:
                stats["generator_symbol_nodes_not_generated_here"] += 1
                continue
            stats["generator_nodes_checked"] += 1
            if nonin:
                stats["nodes_after_noninitial_operator"] += 1
                nontrivial = True
            name = n.symbol.name()
            try:
                text = str(n)
            except Exception:
                text = None
            key = (tuple(sorted(str(s) for s in n.sources)), text)
            if c["t"] == "converter":
                # these two generators are not injective (the check digit is dropped / recomputed), so the log cannot tell
                # which call a text came from; decided functionally instead: the text was returned by some call, and it is
                # what the generator gives for the argument recorded with the node
                pure = {"<enc>": _encode, "<plain>": _decode}[name]
                returned = any(k[1] == text for k in evset.get(name, ()))
                stats["converter_texts_logged_as_returned" if returned else "converter_texts_consistent_but_not_logged"] += 1
                args = [str(s_) for s_ in n.sources]
                if len(args) != 1 or pure(args[0]) != text:
                    # known mechanism: crossover takes its donor subtree from anywhere, including the ARGUMENT trees kept in
                    # `sources` (produced by the symbol's plain rule to break the converter cycle), and mounts it at a
                    # generator-defined position; the argument recorded afterwards is derived through the other converter.
                    # Attributed only if nothing was wrong in any tree produced before the first crossover of this run.
                    if first_bad[0] is None:
                        first_bad[0] = where_op
                    mech = "crossover-mounts-argument-subtree-at-generated-position" if first_bad[0] == "crossover" else None
                    violations.append({"what": f"{where}: generator-defined {name} has text {text!r} but its recorded argument(s) {args} give "
                                               f"{pure(args[0]) if len(args) == 1 else '(no single argument)'!r}"
                                               + ("" if returned else "; the generator never returned this text"), "mech": mech, "tree": pretty(t)[:300], "spec": spec})
                    return
            elif key not in evset.get(name, ()):
                same_text = [k for k in evset.get(name, ()) if k[1] == text]
                why = ("the generator never returned this text" if not same_text else
                       f"the generator returned this text only for other argument values {sorted(same_text)[:2]} than the recorded sources {key[0]}")
                violations.append({"what": f"{where}: generator-defined {name} has text {text!r}; {why}", "mech": None, "tree": pretty(t)[:300], "spec": spec})
                return
            probs = model.check_tree(n, name)
            if probs:
                violations.append({"what": f"{where}: children of generator-defined {name} do not derive its rule: {probs[0][1]}", "mech": None, "tree": pretty(t)[:300]})
                return
            if c["t"] == "misfit" and text is not None and text.startswith("x"):
                violations.append({"what": f"{where}: a misfitting generator value {text!r} ended up in a produced tree", "mech": None})

    for op, t in operators.OUTPUTS:
        judge(t, f"operator {op}", op != "initial", where_op=op)
        if len(violations) >= 3:
            break
    for t in sols:
        judge(t, "emitted solution", True, where_op="solution")
    if f.fandango is not None:
        for t in f.fandango.population:
            judge(t, "final population member", True, where_op="population")
    stats["evaluations"] = stats["generator_nodes_checked"]
    stats["solutions"] = len(sols)
    res = {"status": "violation" if violations else "ok", "violations": violations[:3], "stats": dict(stats),
           "nontrivial": nontrivial, "distinct_key": c["key"]}
    if hash(c["key"]) % 20 == 0 or violations:
        res["sample"] = {"template": c["t"], "constraints": chosen, "settings": settings, "events": [list(map(str, e)) for e in EVENTS[:3]],
                         "solutions": [str(s) for s in sols[:3]], "run_raised": raised}
    return res
