"""C02 -- emitted solutions satisfy every hard constraint."""
import random

ID = "C02"
LEVEL = "exploration"
RULE = ("cases: (fixed grammar with computed repetitions + random constraint from /verif's constraint AST, incl. raising sub-expressions, quantifiers, "
        "selectors, extra/command-line constraints) | harvested spec with its own constraints, x search settings x seed. Every tree emitted by fuzz() / "
        "generate_solutions() (no best_effort) is judged by evaluators that share nothing with the search: (1) vf/ref/constraint_sem.py over /verif's AST "
        "and the exact computed repetition count recomputed by the harness; (2) for harvested specs a fresh spec object parsed again from the text, "
        "constraint.check on a structural copy (an escaping exception = not satisfied). Non-trivial: >= 1 solution emitted and judged, spec has >= 1 "
        "constraint; distinct by (spec, settings, seed).")
TIMEOUTS = {"quick": (35, 300), "thorough": (240, 2400)}
MIN = {"quick": {"cases": 120, "nontrivial": 40, "observed": {"solutions_judged": 800, "solutions_judged_by_reference": 400, "runs_with_swallowed_exceptions": 10}},
       "thorough": {"cases": 1400, "nontrivial": 500, "observed": {"solutions_judged": 7000}}}
ASSUMPTIONS = ["constructs on which C07 records a known deviation (`..` selecting the base node itself, `not` before a comparison) are not generated here",
               "index selectors that run out of range on a solution are an abstention (docs silent)"]

SPECS = {
    "kvc": ("<start> ::= <n> <item>{int(<n>)} <tail>\n<n> ::= '0' | '1' | '2' | '3'\n<item> ::= <key> '=' <num> ';'\n<key> ::= <letter>+\n<letter> ::= 'a' | 'b' | 'c'\n"
            "<num> ::= <d>+\n<d> ::= '0' | '1' | '2' | '5'\n<tail> ::= <d>*\n",
            {"num": ["<num>", "<d>", "<n>"], "word": ["<key>", "<letter>", "<item>", "<tail>"],
             "children": {"<start>": ["<n>", "<item>", "<tail>"], "<item>": ["<key>", "<num>"], "<key>": ["<letter>"], "<num>": ["<d>"], "<tail>": ["<d>"]}},
            [("<item>", "<n>")]),
    "msg": ("<start> ::= <hdr> <body>\n<hdr> ::= <n> ':'\n<n> ::= <d>\n<body> ::= <w>*\n<w> ::= 'x' | 'yy' | <d> | '[' <body> ']'\n<d> ::= '0' | '1' | '2' | '3'\n",
            {"num": ["<n>", "<d>"], "word": ["<w>", "<body>", "<hdr>"],
             "children": {"<start>": ["<hdr>", "<body>"], "<hdr>": ["<n>"], "<n>": ["<d>"], "<body>": ["<w>"], "<w>": ["<d>", "<body>"]}},
            []),
    "grp": ("<start> ::= <n> ('[' <x> ']'){int(<n>)} '.' <t>?\n<n> ::= '0' | '1' | '2' | '3'\n<x> ::= <d>+\n<d> ::= '4' | '5' | '6'\n<t> ::= 'end'\n",
            {"num": ["<n>", "<x>", "<d>"], "word": ["<t>"], "children": {"<start>": ["<n>", "<x>", "<t>"], "<x>": ["<d>"]}},
            [("<x>", "<n>")]),
    "recs": ("<start> ::= <rec> (';' <rec>){0,2}\n<rec> ::= <n> ':' <item>{int(<n>)}\n<n> ::= '0' | '1' | '2' | '3' | '4'\n<item> ::= 'a' | 'b'\n",
             {"num": ["<n>"], "word": ["<item>", "<rec>"], "children": {"<start>": ["<rec>"], "<rec>": ["<n>", "<item>"]}},
             []),
    "two": ("<start> ::= <a> <x>{int(<a>)} '|' <b> <y>{int(<b>), 4}\n<a> ::= '1' | '2'\n<b> ::= '0' | '1' | '2'\n<x> ::= 'p' | 'q'\n<y> ::= <d>\n<d> ::= '7' | '8'\n",
            {"num": ["<a>", "<b>", "<d>", "<y>"], "word": ["<x>"], "children": {"<start>": ["<a>", "<x>", "<b>", "<y>"], "<y>": ["<d>"]}},
            [("<x>", "<a>")]),
}


def cases(tier, seed):
    rng = random.Random(2000 + seed)
    n = 150 if tier == "quick" else 1600
    out = []
    names = list(SPECS)
    for i in range(n):
        out.append({"key": f"gen-{names[i % len(names)]}-{i}", "kind": "gen", "g": names[i % len(names)], "seed": rng.randrange(1 << 30)})
    from vf.gen import harvest

    for j, f in enumerate(harvest.safe_complete_specs()):
        if tier == "quick" and j % 2 != seed % 2:
            continue   # the quick tier alternates over the harvested specs with the seed
        for r_ in range(1 if tier == "quick" else 4):
            out.append({"key": f"harvest-{f.split('/repo/')[-1]}-{r_}", "kind": "harvest", "file": f, "seed": rng.randrange(1 << 30)})
    return out


def setup():
    from vf.monitors import accept

    accept.install()


def _acceptable(cons):
    from vf.gen import consgen

    return "not-before-comparison" not in consgen.features(cons)


def run_case(c):
    import copy
    from collections import Counter
    from fandango import Fandango
    from fandango.constraints.soft import SoftValue
    from vf.gen import consgen
    from vf.ref import constraint_sem as cs
    from vf.trees import pretty
    from vf import hooks
    from vf.monitors import accept

    rng = random.Random(c["seed"])
    stats = Counter()
    violations = []
    accept.reset()
    settings = dict(population_size=rng.choice([5, 10, 20, 30]), max_generations=rng.choice([3, 5, 8]),
                    desired_solutions=rng.choice([5, 20, 50]), max_nodes=rng.choice([30, 100, 200]))
    before_pe = hooks.COUNTS["print_exception"]
    if c["kind"] == "gen":
        text, info, reps = SPECS[c["g"]]
        conss = []
        for _ in range(rng.choice([1, 1, 2, 3])):
            for _try in range(20):
                cons = consgen.rand_constraint(rng, info, depth=rng.choice([0, 1, 2, 2]))
                if _acceptable(cons):
                    conss.append(cons)
                    break
        if rng.random() < 0.4:
            conss.insert(rng.randrange(len(conss) + 1), consgen.discriminating(rng, info))
            stats["specs_with_discriminating_quantifier"] += 1
        k_extra = rng.choice([0, 0, 1]) if len(conss) > 1 else 0
        in_spec, extra = conss[:len(conss) - k_extra], conss[len(conss) - k_extra:]
        spec = text + "".join("where " + cs.to_text(x) + "\n" for x in in_spec)
        lazy = rng.random() < 0.3
        try:
            f = Fandango(spec, use_stdlib=False, lazy=lazy)
            sols = f.fuzz(extra_constraints=[cs.to_text(x) for x in extra] or None, random_seed=c["seed"] & 0xFFFF, **settings)
        except Exception as e:
            return {"status": "ok", "stats": {"spec_or_run_rejected": 1, "rejected:" + type(e).__name__: 1}, "nontrivial": False}
        stats["runs"] += 1
        env = dict(f.grammar._global_variables)
        judged = 0
        from vf.ref.grammar_model import from_fandango
        gm = from_fandango(f.grammar)
        for t in sols:
            stats["solutions_judged"] += 1
            stats["solutions_judged_by_reference"] += 1
            judged += 1
            if not gm.accepts(str(t), "<start>"):
                violations.append({"what": f"emitted solution {str(t)!r} is not a word of the grammar (computed repetitions read as {{0,}})", "mech": None, "spec": spec})
            for cons in conss:
                self_hits = []
                sr0 = cs.SELECTOR_RAISED[0]
                try:
                    ok = cs.evaluate(cons, t, env=env, self_hits=self_hits)
                except Exception as e:
                    stats["reference_failed"] += 1
                    continue
                if cs.SELECTOR_RAISED[0] != sr0:
                    stats["abstained_index_out_of_range"] += 1
                    continue
                if self_hits:
                    stats["abstained_descendant_self_hit"] += 1
                    continue
                if not ok:
                    violations.append({"what": f"emitted solution {str(t)!r} violates `{cs.to_text(cons)}` under the reference semantics"
                                               + (" (a combination raises)" if cs.has_raising_combination(cons, t, env=env) else ""),
                                       "mech": None, "tree": pretty(t)[:400], "spec": spec, "extra": [cs.to_text(x) for x in extra]})
            # computed repetition bounds: exact counts recomputed from the tree
            for child, cnt in reps:
                try:
                    want = int(str(next(n for n in t.flatten() if n.symbol.is_non_terminal and n.symbol.name() == cnt)))
                    got = sum(1 for n in t._children if n.symbol.is_non_terminal and n.symbol.name() == child)
                    stats["repetition_bounds_checked"] += 1
                    if want != got:
                        violations.append({"what": f"emitted solution {str(t)!r}: {got} x {child} but the computed bound int({cnt}) = {want}", "mech": None, "spec": spec})
                except StopIteration:
                    pass
            if c["g"] == "recs":
                # several instances of one computed repetition in a tree: every record is checked on its own
                for rec in [n for n in t.flatten() if n.symbol.is_non_terminal and n.symbol.name() == "<rec>"]:
                    want = int(str(rec._children[0]))
                    got = sum(1 for n in rec._children if n.symbol.is_non_terminal and n.symbol.name() == "<item>")
                    stats["repetition_bounds_checked"] += 1
                    if want != got:
                        violations.append({"what": f"emitted solution {str(t)!r}: record {str(rec)!r} has {got} items but its computed bound is {want}", "mech": None, "spec": spec})
                        break
            if c["g"] == "two":
                try:
                    b = int(str(next(n for n in t.flatten() if n.symbol.is_non_terminal and n.symbol.name() == "<b>")))
                    ys = sum(1 for n in t._children if n.symbol.is_non_terminal and n.symbol.name() == "<y>")
                    stats["repetition_bounds_checked"] += 1
                    if not (b <= ys <= 4):
                        violations.append({"what": f"emitted solution {str(t)!r}: {ys} x <y> outside the computed bounds [int(<b>)={b}, 4]", "mech": None, "spec": spec})
                except StopIteration:
                    pass
        nontrivial = judged > 0
        sample = {"spec": spec, "extra": [cs.to_text(x) for x in extra], "settings": settings, "solutions": [str(t) for t in sols[:4]]}
    else:
        from vf.gen import harvest

        f, text = harvest.try_load(c["file"])
        if f is None:
            return {"status": "ok", "stats": {"spec_unloadable": 1}, "nontrivial": False}
        hard = [x for x in f.constraints if not isinstance(x, SoftValue)]
        try:
            sols = f.fuzz(random_seed=c["seed"] & 0xFFFF, **settings)
        except Exception as e:
            return {"status": "ok", "stats": {"run_raised:" + type(e).__name__: 1}, "nontrivial": False}
        stats["runs"] += 1
        f2, _ = harvest.try_load(c["file"])
        judged = 0
        for t in sols:
            cp = copy.deepcopy(t)
            stats["solutions_judged"] += 1
            stats["solutions_judged_by_fresh_evaluator"] += 1
            judged += 1
            for con in f2.constraints:
                if isinstance(con, SoftValue):
                    continue
                try:
                    ok = con.check(cp)
                except Exception as e:
                    ok = False
                if not ok:
                    violations.append({"what": f"emitted solution {pretty(t)[:80]!r} of {c['file'].split('/repo/')[-1]} violates `{con.format_as_spec()[:160]}` "
                                               f"when re-evaluated by a fresh spec object", "mech": None, "tree": pretty(t)[:400]})
                    break
        nontrivial = judged > 0 and len(hard) > 0
        def _s(t):
            try:
                return str(t)[:60]
            except Exception:
                return repr(t.to_bits())[:60] if hasattr(t, "to_bits") else "?"
        sample = {"file": c["file"], "constraints": [x.format_as_spec()[:100] for x in hard[:3]], "solutions": [_s(t) for t in sols[:3]]}
    if hooks.COUNTS["print_exception"] > before_pe:
        stats["runs_with_swallowed_exceptions"] += 1
        stats["swallowed_exceptions"] += hooks.COUNTS["print_exception"] - before_pe
    for v in accept.VIOLATIONS:
        violations.append({"what": "C03 online monitor: " + v["what"], "mech": "c03-online"})
    stats["evaluations"] = stats["solutions_judged"]
    res = {"status": "violation" if violations else "ok", "violations": violations[:5], "stats": dict(stats),
           "nontrivial": nontrivial, "distinct_key": c["key"]}
    if hash(c["key"]) % 25 == 0 or violations:
        res["sample"] = sample
    return res
