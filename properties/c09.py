"""C09 -- a tree's value is the in-order concatenation of its leaves."""
import itertools
import random

ID = "C09"
LEVEL = "exploration"
RULE = ("cases: random leaf sequence (text ASCII / Latin-1 / beyond, bytes, single bits and bit runs, empty leaves) satisfying the alignment precondition "
        "(every text/bytes leaf starts on a byte boundary; total a multiple of 8 when a byte view is requested) x many random bracketings of it "
        "(bit runs split across sibling and cousin subtrees). For every tree all 24 orders of str/bytes/to_bits/int are applied (i) each on a fresh copy, "
        "(ii) in sequence on one tree, (iii) in sequence on one tree.value() object, (iv) value -> in-place leaf edit -> value histories asked of the tree, subtrees and index/slice views; results must coincide across bracketings and orders and equal the "
        "reference (vf/ref/treeval.py); tree dumps and every terminal's TreeValue internals must be unchanged afterwards. Non-trivial: >= 2 leaves and "
        ">= 2 nesting levels; distinct by (leaf sequence, bracketing).")
TIMEOUTS = {"quick": (60, 240), "thorough": (120, 1500)}
MIN = {"quick": {"cases": 1500, "nontrivial": 10000, "observed": {"conversions": 500000, "binary_sequences": 500, "bit_runs_split_across_subtrees": 1000, "post_edit_slice_values_checked": 2000}},
       "thorough": {"cases": 20000, "nontrivial": 150000, "observed": {"conversions": 5000000}}}
ASSUMPTIONS = ["int() is compared for order- and bracketing-independence only, not against a reference",
               "for unaligned sequences only 'no mutation, same outcome (value or error class) for every bracketing' is asserted"]


def cases(tier, seed):
    rng = random.Random(9000 + seed)
    n = 2400 if tier == "quick" else 30000
    return [{"key": f"seq-{i}", "seed": rng.randrange(1 << 30), "brackets": 8 if tier == "quick" else 20} for i in range(n)]


TEXTS = ["a", "A", "xyz", "0", "12", "", " ", "é", "ß", "ÿ", "€", "日", "a\x00b", "\x7f"]
BYTESV = [b"\x00", b"\x01", b"\xff", b"ab", b"\x80\x81", b"", b"\xc3\xa9", b"7"]


def gen_leaves(rng):
    """list of leaf values (str | bytes | int) obeying the alignment precondition; returns (leaves, aligned_total)"""
    kind = rng.choice(["text", "text", "bytes", "bits", "mixed", "mixed", "mixed", "unaligned"])
    leaves = []
    pos = 0
    n = rng.randint(1, 7)
    for _ in range(n):
        if kind == "text":
            choice = "t"
        elif kind == "bytes":
            choice = rng.choice("tb") if rng.random() < 0.3 else "b"
        elif kind == "bits":
            choice = "r"
        else:
            choice = rng.choice("tbrr")
        if choice in "tb" and pos % 8 != 0 and kind != "unaligned":
            # complete the current byte with bits first
            k = 8 - pos % 8
            leaves += [rng.randint(0, 1) for _ in range(k)]
            pos += k
        if choice == "t":
            v = rng.choice(TEXTS)
            leaves.append(v)
            pos += 8 * len(v.encode("utf-8"))
        elif choice == "b":
            v = rng.choice(BYTESV)
            leaves.append(v)
            pos += 8 * len(v)
        else:
            k = rng.choice([1, 2, 3, 4, 5, 8, 11])
            leaves += [rng.randint(0, 1) for _ in range(k)]
            pos += k
    if kind != "unaligned" and pos % 8 != 0 and rng.random() < 0.85:
        k = 8 - pos % 8
        leaves += [rng.randint(0, 1) for _ in range(k)]
        pos += k
    return leaves, kind


def bracket(leaves, rng, names):
    """random tree over the leaf sequence: returns nested structure (name, [children]) with leaves as ('L', value)"""
    from fandango.language.tree import DerivationTree
    from fandango.language.symbols import Terminal, NonTerminal

    def build(seq, depth):
        if len(seq) == 0:
            return []
        if depth <= 0 or len(seq) == 1 and rng.random() < 0.6:
            return [DerivationTree(Terminal(v)) for v in seq]
        out = []
        i = 0
        while i < len(seq):
            j = min(len(seq), i + rng.randint(1, max(1, len(seq) // 2 + 1)))
            part = seq[i:j]
            if rng.random() < 0.6:
                out.append(DerivationTree(NonTerminal(rng.choice(names)), build(part, depth - 1)))
            else:
                out.extend(DerivationTree(Terminal(v)) for v in part)
            if rng.random() < 0.1:
                out.append(DerivationTree(NonTerminal(rng.choice(names)), []))  # an empty subtree changes nothing
            i = j
        return out

    return DerivationTree(NonTerminal("<start>"), build(list(leaves), rng.randint(1, 4)))


CONVS = {
    "str": lambda x: str(x),
    "bytes": lambda x: bytes(x),
    "bits": lambda x: x.to_bits(),
    "int": lambda x: int(x),
}


def outcome(fn, x):
    try:
        return ("ok", fn(x))
    except Exception as e:
        return ("err", type(e).__name__)


def depth_of(t):
    return 1 + max((depth_of(c) for c in t._children), default=0)


def splits_bit_run(t):
    """some maximal bit run is spread over more than one parent"""
    from vf.trees import leaves

    ls = leaves(t)
    prev_parent = None
    in_run = False
    for l in ls:
        isbit = l.symbol.value()._value is None
        if isbit:
            if in_run and l._parent is not prev_parent:
                return True
            in_run = True
            prev_parent = l._parent
        else:
            in_run = False
    return False


def terminal_internals(t):
    from vf.trees import leaves

    return [(id(l.symbol), repr(l.symbol.value()._value), tuple(l.symbol.value()._trailing_bits)) for l in leaves(t)]


def same_width_replacement(v, rng):
    if isinstance(v, int):
        return 1 - v
    if isinstance(v, str):
        n = len(v.encode("utf-8"))
        cands = [x for x in TEXTS + ["b", "Z", "9", "qrs", "ö", "ab"] if len(x.encode("utf-8")) == n and x != v]
    else:
        cands = [x for x in BYTESV + [b"\x02", b"zz", b"\x10\x11"] if len(x) == len(v) and x != v]
    return rng.choice(cands) if cands else None


def view_reference(view):
    from vf.ref import treeval

    seq = treeval.leaf_seq(view)
    if not treeval.aligned(seq):
        return None
    binary = treeval.is_binary(seq)
    whole = len(treeval.to_bits(seq)) % 8 == 0
    if binary and not whole:
        return {"bits": ("ok", treeval.to_bits(seq))}
    ref = {"bits": ("ok", treeval.to_bits(seq)), "str": ("ok", treeval.to_str(seq))}
    if whole:
        ref["bytes"] = ("ok", treeval.to_bytes(seq))
    return ref


def edit_history(tt, rng, stats):
    from fandango.language.tree import DerivationTree
    from fandango.language.symbols import Terminal
    from vf.trees import pretty

    out = []
    inner = [n for n in tt.flatten() if not n.symbol.is_terminal and n._children]
    if not inner:
        return out
    views = [("tree", tt)]
    for n in rng.sample(inner, min(3, len(inner))):
        views.append(("subtree", n))
        k = len(n._children)
        i = rng.randrange(k)
        j = rng.randint(i + 1, k)
        try:
            views.append((f"slice[{i}:{j}]", n[i:j]))
            views.append((f"index[{i}]", n[i]))
        except Exception:
            pass
    for rounds in range(2):
        # ask every view for its values (this is what may be memoised)
        for name, v in views:
            for k_ in rng.sample(["str", "bytes", "bits"], 3):
                outcome(CONVS[k_], v)
                stats["conversions"] += 1
        # in-place edit of one leaf through the public mutators
        leaves_ = [n for n in tt.flatten() if n.symbol.is_terminal and n._parent is not None]
        if not leaves_:
            return out
        leaf = rng.choice(leaves_)
        old = leaf.symbol.value()
        raw = (old._trailing_bits[0] if old._value is None and len(old._trailing_bits) == 1 else old._value)
        new = same_width_replacement(raw, rng) if raw is not None else None
        if new is None:
            return out
        parent = leaf._parent
        how = rng.choice(["symbol", "set_children", "set_children"])
        if how == "symbol":
            leaf.symbol = Terminal(new)
        else:
            parent.set_children([DerivationTree(Terminal(new)) if ch is leaf else ch for ch in parent._children])
        stats["edit_histories"] += 1
        for name, v in views:
            ref = view_reference(v)
            if ref is None:
                continue
            for k_, want in ref.items():
                got = outcome(CONVS[k_], v)
                stats["conversions"] += 1
                stats["post_edit_values_checked"] += 1
                if "slice" in name:
                    stats["post_edit_slice_values_checked"] += 1
                if got != want:
                    out.append({"what": f"after replacing leaf {raw!r} by {new!r} (via {how}) {k_}() of the {name} view = {got!r}, but its current leaves concatenate to "
                                        f"{want!r} (the value had been requested before the edit); tree now {pretty(tt)[:300]}", "mech": None})
                    return out
    return out


def run_case(c):
    import copy
    from collections import Counter
    from vf.ref import treeval
    from vf.trees import dump, pretty

    rng = random.Random(c["seed"])
    stats = Counter()
    violations = []
    leaves, kind = gen_leaves(rng)
    names = ["<a>", "<b>", "<c>"]
    flat = bracket(leaves, random.Random(0), names)
    seq = treeval.leaf_seq(flat)
    binary = treeval.is_binary(seq)
    aligned = treeval.aligned(seq)
    total_bits = len(treeval.to_bits(seq))
    whole = total_bits % 8 == 0
    precond = aligned and (whole or not binary)
    ref = {}
    if precond:
        ref["bits"] = ("ok", treeval.to_bits(seq))
        ref["bytes"] = ("ok", treeval.to_bytes(seq)) if whole else None
        ref["str"] = ("ok", treeval.to_str(seq))
    elif aligned and binary:
        ref["bits"] = ("ok", treeval.to_bits(seq))   # the bit view needs no byte alignment of the total
    stats["binary_sequences" if binary else "text_sequences"] += 1
    stats["precondition_holds" if precond else "precondition_fails"] += 1
    orders = list(itertools.permutations(["str", "bytes", "bits", "int"]))
    first_results = None
    distinct = 0
    for b in range(c["brackets"]):
        t = bracket(leaves, rng, names) if b else flat
        if treeval.leaf_seq(t) != seq:
            return {"status": "inconclusive", "reason": "harness: bracketing changed the leaf sequence"}
        if depth_of(t) >= 3 and len(leaves) >= 2:
            distinct += 1
        if splits_bit_run(t):
            stats["bit_runs_split_across_subtrees"] += 1
        d0 = dump(t, with_reps=True)
        ti0 = terminal_internals(t)
        # (i) each conversion on a fresh copy
        res = {k: outcome(fn, copy.deepcopy(t)) for k, fn in CONVS.items()}
        stats["conversions"] += 4
        for k, want in ref.items():
            if want is not None and res[k] != want:
                violations.append({"what": f"{k}() of tree {pretty(t)[:300]} = {res[k]!r}, reference (in-order concatenation of the leaves) = {want!r}", "mech": None})
        if first_results is None:
            first_results = res
        elif res != first_results:
            diff = [k for k in res if res[k] != first_results[k]]
            violations.append({"what": f"bracketing changes the value: {diff} of {pretty(t)[:300]} = {[res[k] for k in diff]!r}, of the flat tree {pretty(flat)[:200]} = {[first_results[k] for k in diff]!r}", "mech": None})
        # (ii) all orders in sequence on one tree, (iii) on one value object
        for order in (orders if b < 2 else rng.sample(orders, 4)):
            tt = copy.deepcopy(t)
            got = {k: outcome(CONVS[k], tt) for k in order}
            stats["conversions"] += 4
            if got != res:
                diff = [k for k in order if got[k] != res[k]]
                violations.append({"what": f"order {order} on one tree changes {diff}: {[got[k] for k in diff]!r} vs fresh {[res[k] for k in diff]!r}; tree {pretty(t)[:300]}", "mech": None})
                break
            try:
                v = copy.deepcopy(t).value()
            except Exception:
                continue
            got = {k: outcome(CONVS[k], v) for k in order}
            stats["conversions"] += 4
            if got != res:
                diff = [k for k in order if got[k] != res[k]]
                violations.append({"what": f"order {order} on one tree.value() object changes {diff}: {[got[k] for k in diff]!r} vs fresh {[res[k] for k in diff]!r}; tree {pretty(t)[:300]}", "mech": None})
                break
        # (iv) value -> in-place edit -> value histories, asked of the tree, of subtrees and of index/slice views of it:
        # a later result is the concatenation of the leaves the view has THEN
        if b < 4:
            violations.extend(edit_history(copy.deepcopy(t), rng, stats))
        # conversions on the tree itself must not change it or its terminals' value objects
        for k in rng.sample(list(CONVS), 4):
            outcome(CONVS[k], t)
        if dump(t, with_reps=True) != d0:
            violations.append({"what": f"value conversion changed the tree {pretty(t)[:300]}", "mech": None})
        if terminal_internals(t) != ti0:
            violations.append({"what": f"value conversion changed a terminal symbol's value object in {pretty(t)[:300]}", "mech": None})
        if len(violations) > 4:
            break
    stats["evaluations"] = stats["conversions"]
    res = {"status": "violation" if violations else "ok", "violations": violations[:4], "stats": dict(stats),
           "nontrivial": distinct > 0, "distinct_count": distinct}
    if hash(c["key"]) % 60 == 0 or violations:
        res["sample"] = {"leaves": [repr(x) for x in leaves], "kind": kind, "flat": first_results and {k: repr(v) for k, v in first_results.items()}}
    return res
