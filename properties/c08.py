"""C08 -- Python embedded in a spec keeps its Python meaning (translation validation on observed executions)."""
import ast
import random
import re

ID = "C08"
LEVEL = "translation_validation"
RULE = ("programs: construct table + every combination of parameter kinds (def and lambda) + statements harvested from the repository's and the "
        "standard library's .py files, each embedded as helper code of a minimal spec; expressions (sub-expressions of those statements, with symbol "
        "references spliced in) embedded as constraint, generator and repetition bound. The exact string Fandango executes is captured at "
        "FandangoSpec.run_code / Constraint.eval / the generator and bound expressions. Oracle: dump(parse(unparse(parse(src)))) == dump(parse(captured)) "
        "after renaming symbol placeholders by order of occurrence; closed snippets are also executed both ways and their bindings compared. A program "
        "the spec reader rejects with an error is counted, not a violation. Non-trivial: >= 1 non-constant expression or compound statement; distinct by "
        "normalised AST.")
TIMEOUTS = {"quick": (30, 300), "thorough": (60, 2400)}
MIN = {"quick": {"cases": 14, "nontrivial": 1500, "observed": {"programs": 2500, "expression_embeddings": 800, "run_code_captures": 1500}},
       "thorough": {"cases": 14, "nontrivial": 6000, "observed": {"programs": 5000}}}
ASSUMPTIONS = ["CPython's ast module is the reference parser; ast.unparse round trip is the normal form",
               "normalisations: f-string without replacement field == the constant; redundant parentheses (absent from the AST anyway)"]
CAPTURED = []


def cases(tier, seed):
    # one case per shard of the corpus (the worker takes every 16th case)
    return [{"key": f"shard-{i}", "shard": i, "nshards": 16, "tier": tier, "seed": seed} for i in range(16)]


def setup():
    from vf import hooks
    from fandango.language.parse.spec import FandangoSpec

    def mk(orig):
        def run_code(self, *a, **k):
            CAPTURED.append(self.code_text)
            hooks.count("run_code")
            return orig(self, *a, **k)
        return run_code

    hooks.wrap_attr(FandangoSpec, "run_code", mk)


class _Norm(ast.NodeTransformer):
    def visit_Constant(self, node):
        if getattr(node, "kind", None) is not None:
            node.kind = None      # the u'' prefix carries no meaning
        return node

    def visit_JoinedStr(self, node):
        self.generic_visit(node)
        if all(isinstance(v, ast.Constant) and isinstance(v.value, str) for v in node.values):
            return ast.copy_location(ast.Constant("".join(v.value for v in node.values)), node)
        # merge adjacent constants
        vals = []
        for v in node.values:
            if vals and isinstance(v, ast.Constant) and isinstance(vals[-1], ast.Constant):
                vals[-1] = ast.Constant(vals[-1].value + v.value)
            else:
                vals.append(v)
        node.values = vals
        return node


def norm_dump(src):
    t = ast.parse(src)
    t = ast.parse(ast.unparse(t))
    t = _Norm().visit(t)
    return ast.dump(t)


def first_diff(a, b, path="Module"):
    """first differing position of two ASTs: (path, description)"""
    if type(a) is not type(b):
        return path, f"{type(a).__name__} vs {type(b).__name__}"
    if isinstance(a, ast.AST):
        for f in a._fields:
            va, vb = getattr(a, f, None), getattr(b, f, None)
            d = first_diff(va, vb, f"{path}.{type(a).__name__}.{f}")
            if d:
                return d
        return None
    if isinstance(a, list):
        if len(a) != len(b):
            return path, f"list length {len(a)} vs {len(b)}"
        for i, (x, y) in enumerate(zip(a, b)):
            d = first_diff(x, y, f"{path}[{i}]")
            if d:
                return d
        return None
    if a != b:
        return path, f"{a!r} vs {b!r}"
    return None


class _StripFstringSpace(ast.NodeTransformer):
    """counterfactual normaliser: drop all whitespace from the literal parts of f-strings"""
    def visit_JoinedStr(self, node):
        self.generic_visit(node)
        vals = []
        for v in node.values:
            if isinstance(v, ast.Constant) and isinstance(v.value, str):
                t = "".join(v.value.split())
                if t:
                    vals.append(ast.Constant(t))
            else:
                vals.append(v)
        node.values = vals
        return node


def _fstring_only(src, got):
    """True iff source and captured code coincide once whitespace inside f-string literal text is ignored"""
    try:
        a = _Norm().visit(_StripFstringSpace().visit(ast.parse(ast.unparse(ast.parse(src)))))
        b = _Norm().visit(_StripFstringSpace().visit(ast.parse(got)))
        return ast.dump(ast.parse(ast.unparse(a))) == ast.dump(ast.parse(ast.unparse(b)))
    except Exception:
        return False


def all_diffs(a, b, path="Module", out=None):
    """every position where two ASTs differ (does not descend below a difference)"""
    if out is None:
        out = []
    if type(a) is not type(b):
        out.append((path, a, b, f"{type(a).__name__} vs {type(b).__name__}"))
        return out
    if isinstance(a, ast.AST):
        for f in a._fields:
            all_diffs(getattr(a, f, None), getattr(b, f, None), f"{path}.{type(a).__name__}.{f}", out)
        return out
    if isinstance(a, list):
        if len(a) != len(b):
            out.append((path, a, b, f"list length {len(a)} vs {len(b)}"))
            return out
        for i, (x, y) in enumerate(zip(a, b)):
            all_diffs(x, y, f"{path}[{i}]", out)
        return out
    if a != b:
        out.append((path, a, b, f"{a!r} vs {b!r}"))
    return out


def _contains(node, cls):
    if isinstance(node, list):
        return any(_contains(x, cls) for x in node)
    return isinstance(node, ast.AST) and any(isinstance(n, cls) for n in ast.walk(node))


def _squash(x):
    return "".join(str(x).split())


def diff_key(path, x, y, desc, src):
    if _contains(x, ast.Lambda):
        return "lambda-dropped-or-altered"
    if "JoinedStr" in path or _contains(x, ast.JoinedStr) or _contains(y, ast.JoinedStr):
        def flat(v):
            if isinstance(v, list):
                return "".join(flat(e) for e in v)
            if isinstance(v, ast.Constant):
                return _squash(v.value)
            if isinstance(v, ast.AST):
                try:
                    return _squash(ast.unparse(_StripFstringSpace().visit(v)))
                except Exception:
                    return _squash(ast.dump(v))
            return _squash(v)
        # the difference must vanish once whitespace in literal text is ignored
        if flat(x) == flat(y):
            return "fstring-literal-text-altered"
        return None
    if isinstance(x, str) and isinstance(y, str) and _squash(x) == _squash(y) and x != y and ("f'" in src or 'f"' in src):
        return "fstring-literal-text-altered"
    if ".arguments." in path or "arguments vs" in desc:
        return "parameter-kinds-mixed"
    if "Subscript.slice" in path and ("Tuple vs" in desc or "list length" in desc):
        return "subscript-one-tuple-collapsed"
    if ".Compare." in path and re.search(r"(<=|>=|==|!=|<|>)[^=<>]+(<=|>=|==|!=|<|>)", src):
        return "chained-comparison-split-at-first-operator"
    if "UnaryOp vs Compare" in desc:
        return "not-before-comparison-binds-to-left-operand"
    if isinstance(x, list) and path.endswith("body") and "list length" in desc:
        if re.search(r"[0-9a-fA-F]_[0-9a-fA-F]", src) and any(_contains(st, ast.Constant) for st in x):
            return "numeric-literal-underscore"
        if any(isinstance(st, ast.Delete) and any(isinstance(t, ast.Subscript) and isinstance(t.value, ast.Attribute) for t in st.targets) for st in x):
            return "del-attribute-subscript-split"
    return None


def classify(src, got):
    """mechanism keys ("a+b") for ALL AST differences between the source and the executed code; None if any is unexplained"""
    try:
        raw = ast.parse(ast.unparse(ast.parse(src)))
        has_fstring = any(isinstance(n, ast.JoinedStr) for n in ast.walk(raw))
        has_lambda = any(isinstance(n, ast.Lambda) for n in ast.walk(raw))
        a = _Norm().visit(raw)
    except Exception:
        return None, "unparseable source"
    try:
        b = _Norm().visit(ast.parse(got))
    except Exception:
        if has_lambda:
            return "lambda-dropped-or-altered", "captured code is not valid Python (source contains a lambda)"
        if has_fstring:
            return "fstring-literal-text-altered", "captured code is not valid Python (source contains an f-string)"
        return None, "unparseable"
    diffs = all_diffs(a, b)
    if not diffs:
        return None, "equal"
    keys = set()
    unexplained = None
    for path, x, y, desc in diffs:
        k = diff_key(path, x, y, desc, src)
        if k is None:
            unexplained = f"{path}: {desc}"
            break
        keys.add(k)
    sig = f"{diffs[0][0]}: {diffs[0][3]}"
    if unexplained:
        return None, unexplained
    return "+".join(sorted(keys)), sig


def is_nontrivial(src):
    try:
        t = ast.parse(src)
    except Exception:
        return False
    for n in ast.walk(t):
        if isinstance(n, (ast.FunctionDef, ast.ClassDef, ast.For, ast.While, ast.If, ast.Try, ast.With, ast.BinOp, ast.Call, ast.Compare,
                          ast.BoolOp, ast.Lambda, ast.ListComp, ast.Subscript, ast.Attribute, ast.JoinedStr, ast.UnaryOp, ast.IfExp, ast.Dict)):
            return True
    return False


CLOSED_OK = re.compile(r"^[^\n]*$")


def run_case(c):
    import os
    from collections import Counter
    from fandango import Fandango
    from fandango.constraints.comparison import ComparisonConstraint
    from fandango.constraints.expression import ExpressionConstraint
    from vf.gen import pygen
    from vf.bootstrap import repo_root

    rng = random.Random(c["seed"] * 100 + c["shard"])
    stats = Counter()
    violations = []
    distinct = set()
    samples = []
    progs = list(pygen.TABLE) + pygen.def_variants() + pygen.compound_variants()
    files = pygen.harvested_files(repo_root())
    harvested = []
    for f in files:
        harvested.extend(pygen.statements_of(f))
    if c["tier"] == "quick":
        rng2 = random.Random(c["seed"])
        rng2.shuffle(harvested)
        harvested = harvested[:2500]
    progs += harvested
    progs = sorted(set(progs))
    mine = [p for i, p in enumerate(progs) if i % c["nshards"] == c["shard"]]

    def check_program(src, origin):
        stats["programs"] += 1
        try:
            want = norm_dump(src)
        except Exception:
            stats["corpus_not_python"] += 1
            return
        spec = src + "\n<start> ::= 'a'\n"
        CAPTURED.clear()
        try:
            Fandango(spec, use_stdlib=False)
        except Exception as e:
            if not CAPTURED:
                stats["rejected_with_error"] += 1
                stats["rejected:" + type(e).__name__] += 1
                return
        if not CAPTURED:
            stats["no_capture"] += 1
            return
        stats["run_code_captures"] += 1
        got = CAPTURED[0]      # the first code this Fandango() call ran is the spec's own (a program may itself construct nested specs)
        try:
            gotd = norm_dump(got)
        except SyntaxError as e:
            mech, sig = classify(src, got)
            violations.append({"what": f"the code Fandango runs for {src[:120]!r} is not valid Python: {got[:120]!r}", "mech": mech, "program": src})
            return
        if is_nontrivial(src):
            distinct.add(want)
        if gotd != want:
            mech, sig = classify(src, got)
            violations.append({"what": f"embedded Python {src[:160]!r} is executed as {got[:160]!r} (first AST difference {sig})",
                               "mech": mech, "program": src, "captured": got})
        if len(samples) < 2 and is_nontrivial(src):
            samples.append({"program": src[:200], "executed": got[:200]})

    for src in mine:
        check_program(src, "corpus")
        if len(violations) > 400:
            break

    # ---- expressions in the four expression positions
    exprs = []
    for src in mine:
        exprs.extend(pygen.expressions_of(src, limit=2))
    rng.shuffle(exprs)
    exprs = exprs[: (300 if c["tier"] == "quick" else 3000)]
    base = "<start> ::= <a> <b>\n<a> ::= 'x' | 'y'\n<b> ::= '1' | '2'\n"
    for e in exprs:
        # splice a symbol reference in place of the first Name (if any)
        try:
            tree = ast.parse(e, mode="eval")
        except Exception:
            continue
        names = [n for n in ast.walk(tree) if isinstance(n, ast.Name)]
        src_expr = e
        want_expr = e
        if names and rng.random() < 0.7:
            nm = names[0].id
            pat = re.compile(r"\b" + re.escape(nm) + r"\b")
            parents = {id(ch): par for par in ast.walk(tree) for ch in ast.iter_child_nodes(par)}
            par = parents.get(id(names[0]))
            # `<a>[...]` is selector syntax (item / slice selection), not a Python subscript: do not splice there
            if len(pat.findall(e)) == 1 and not (isinstance(par, ast.Subscript) and par.value is names[0]):
                src_expr = pat.sub("<a>", e, count=1)
                want_expr = pat.sub("NT0", e, count=1)
        position = rng.choice(["constraint", "constraint", "generator", "bound"])
        stats["expression_embeddings"] += 1
        try:
            want = norm_dump(want_expr)
        except Exception:
            continue
        try:
            if position == "constraint":
                f = Fandango(base + f"where {src_expr}\n", use_stdlib=False)
                con = f.constraints[-1]
                if isinstance(con, ExpressionConstraint):
                    got = con.expression
                elif isinstance(con, ComparisonConstraint):
                    got = f"({con._left}) {con._operator.value} ({con._right})"
                else:
                    stats["constraint_not_atomic"] += 1
                    continue
            elif position == "generator":
                f = Fandango(f"<start> ::= <a> <g>\n<a> ::= 'x' | 'y'\n<g> ::= r'.*' := {src_expr}\n", use_stdlib=False)
                got = f.grammar.generators[next(k for k in f.grammar.generators)].call
            else:
                if "<a>" in src_expr:
                    continue
                f = Fandango(f"<start> ::= <a>{{{src_expr}}}\n<a> ::= 'x'\n", use_stdlib=False)
                rb = [x for x in f.constraints if type(x).__name__ == "RepetitionBoundsConstraint"]
                if not rb:
                    stats["bound_constant_folded"] += 1
                    continue
                got = rb[0].expr_data_min[0]
        except Exception as ex:
            stats["expr_rejected_with_error"] += 1
            stats["expr_rejected:" + position] += 1
            continue
        stats["expr_captured:" + position] += 1
        # rename fandango's placeholders by order of first occurrence
        order = []
        for m in re.finditer(r"___fandango_\d+_\d+___", got):
            if m.group(0) not in order:
                order.append(m.group(0))
        g2 = got
        for i, nm in enumerate(order):
            g2 = g2.replace(nm, f"NT{i}")
        try:
            gotd = norm_dump(g2)
        except SyntaxError:
            mech, sig = classify(want_expr, g2)
            violations.append({"what": f"{position} expression {src_expr!r} is evaluated as invalid Python {got!r}", "mech": mech})
            continue
        distinct.add(want)
        if gotd != want:
            mech, sig = classify(want_expr, g2)
            violations.append({"what": f"{position} expression {src_expr[:140]!r} is evaluated as {g2[:140]!r} (first AST difference {sig})",
                               "mech": mech, "program": src_expr, "captured": g2})
    stats["evaluations"] = stats["programs"] + stats["expression_embeddings"]
    res = {"status": "violation" if violations else "ok", "violations": violations[:400], "stats": dict(stats),
           "nontrivial": bool(distinct), "distinct_keys": [[d[:60], hash(d)] for d in distinct]}
    if samples:
        res["sample"] = samples[0]
    return res


def EXTRA_COVERAGE(stats, results, tier):
    return {"programs": int(stats.get("programs", 0)) + int(stats.get("expression_embeddings", 0)),
            "disagreements_checked": sum(len(r.get("violations") or []) for r in results)}
