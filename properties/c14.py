"""C14 -- the C++ and the Python spec readers agree (translation validation between the two front ends)."""
import os
import random
import re

ID = "C14"
LEVEL = "translation_validation"
RULE = ("programs: spec texts -- harvested specs (short ones), generated specs, Python construct table, and systematic perturbations of those (tabs vs "
        "spaces, mixed indentation, CRLF, missing final newline, blank/comment lines inside blocks, line continuations, unterminated strings and f-strings, "
        "unbalanced brackets, non-ASCII identifiers and strings, deleted / duplicated / swapped tokens and lines). Each text is read once by the C++ front end "
        "(rebuilt from the working tree's sources) and once by the pure-Python front end in the same process; compared: accept/reject, and for accepted "
        "texts the products (rules as node-class trees with ids, bounds and parties; generators; constraint class trees with renamed identifiers and "
        "searches; the executed Python text; fuzzing mode). Error messages and token offsets are not compared. Non-trivial: both front ends reached the "
        "parser (non-empty token stream); distinct by text.")
TIMEOUTS = {"quick": (120, 420), "thorough": (300, 3000)}
MIN = {"quick": {"cases": 600, "nontrivial": 600, "observed": {"both_accept": 200, "both_reject": 100}},
       "thorough": {"cases": 3000, "nontrivial": 3000, "observed": {"both_accept": 1000, "both_reject": 800}}}
ASSUMPTIONS = ["the C++ extension is rebuilt from $VERIF_REPO/src/fandango/language/cpp_parser + CMakeLists.txt (content-hash cache); without compiler the check is inconclusive",
               "the products are computed by the same Python visitors over either parse tree; a difference therefore stems from the parse trees"]
NEED_CPP = True
IDRE = re.compile(r"___fandango_\d+_(\d+)___")


def prepare(tier):
    from vf import cppbuild

    so = cppbuild.ensure_built()
    if so is None:
        print("INCONCLUSIVE property=C14 reason=C++ front end could not be built")
        raise SystemExit(2)


def base_texts(seed):
    from vf.gen import harvest, specgen, pygen
    from vf.bootstrap import repo_root

    out = []
    for f in harvest.safe_complete_specs():
        t = harvest.read(f)
        if len(t) < 1800 and "include(" not in t:
            out.append(("harvest:" + os.path.basename(f), t))
    rng = random.Random(seed)
    for i in range(40):
        for kind in ("text", "bytes", "mixed"):
            rules, feats, model = specgen.random_grammar(rng, specgen.Profile(kind=kind, regex_delimited=False, max_nts=3))
            out.append((f"gen:{kind}:{i}", specgen.to_spec(rules)))
    for i, p in enumerate(pygen.TABLE):
        out.append((f"py:{i}", p + "\n<start> ::= 'a'\n"))
    extra = [
        "<start> ::= <a>\n<a> ::= 'x' := f'{1}'\nwhere len(str(<a>)) > 0\n",
        "def f(x):\n    if x:\n        return 1\n    return 2\n<start> ::= 'a'\n",
        "def f(x):\n\tif x:\n\t\treturn 1\n\treturn 2\n<start> ::= 'a'\n",
        "class P(FandangoParty):\n    def __init__(self):\n        super().__init__(ownership=Ownership.FANDANGO_PARTY)\n\n    def send(self, m, r):\n        pass\n<start> ::= <P:m>\n<m> ::= 'a'\n",
        "<start> ::= <a> ;\n<a> ::= 'x' ;\n",
        "# comment\n<start> ::= 'a' # trailing\n  # indented comment\nwhere True\n",
        "<start> ::= 'a' \\\n    'b'\n",
        "<start> ::= (\n  'a'\n  | 'b'\n)\n",
        "x = [\n  1,\n  2,\n]\n<start> ::= 'a'\n",
        "<start> ::= 'é' 'ß'\nwhere str(<start>) != 'ü'\n",
        "grüße = 1\n<start> ::= 'a'\n",
        "<start> ::= <Ä>\n<Ä> ::= 'a'\n",
        "<start> ::= 'a'{2,3} 'b'{,2} 'c'{1,} <x>{int(<n>)}\n<x> ::= 'x'\n<n> ::= '1'\n",
        "<start> ::= <a>\n<a> ::= 'x'\nwhere forall <q> in <a>: str(<q>) == 'x'\nwhere exists <q> in <a>: True\nwhere all(str(e) == 'x' for e in *<a>)\nwhere |<a>| == 1\n",
        "setting all_with_type(NonTerminal) havoc_probability = 0.1\n<start> ::= 'a'\n",
        "<start> ::= 'a'\nminimizing len(str(<start>))\nmaximizing 1\n",
        "if True:\n    x = 1\nelse:\n    x = 2\n<start> ::= 'a'\n",
        "x = '''\n<start> ::= 'not a rule'\n'''\n<start> ::= 'a'\n",
        "x = f'''{1}\n  {2}'''\n<start> ::= 'a'\n",
        "<start> ::= 'a'\n\n\n\nwhere True\n\n",
        "",
        "\n",
        "<start> ::= 'a'",
    ]
    for i, t in enumerate(extra):
        out.append((f"extra:{i}", t))
    return out


def perturb(text, rng):
    kind = rng.choice(["tabs", "crlf", "nofinalnl", "blank-in-block", "comment-in-block", "continuation", "del-token", "dup-token", "swap-lines",
                       "unterminated", "unbalanced", "nonascii", "mixed-indent", "del-char", "dup-line", "trailing-ws", "bom", "formfeed"])
    lines = text.split("\n")
    if kind == "tabs":
        return kind, text.replace("    ", "\t")
    if kind == "mixed-indent":
        return kind, re.sub(r"^        ", "\t", text, flags=re.M)
    if kind == "crlf":
        return kind, text.replace("\n", "\r\n")
    if kind == "nofinalnl":
        return kind, text.rstrip("\n")
    if kind in ("blank-in-block", "comment-in-block") and len(lines) > 1:
        i = rng.randrange(len(lines))
        ins = "" if kind == "blank-in-block" else rng.choice(["# c", "    # c", "\t# c", "        # deep"])
        return kind, "\n".join(lines[:i] + [ins] + lines[i:])
    if kind == "continuation":
        m = list(re.finditer(r" ", text))
        if m:
            p = rng.choice(m).start()
            return kind, text[:p] + " \\\n" + text[p + 1:]
    toks = list(re.finditer(r"<[^<>\s]+>|::=|:=|\w+|'[^'\n]*'|\"[^\"\n]*\"|\S", text))
    if kind == "del-token" and toks:
        t = rng.choice(toks)
        return kind, text[:t.start()] + text[t.end():]
    if kind == "dup-token" and toks:
        t = rng.choice(toks)
        return kind, text[:t.end()] + " " + t.group(0) + text[t.end():]
    if kind == "swap-lines" and len(lines) > 2:
        i = rng.randrange(len(lines) - 1)
        lines[i], lines[i + 1] = lines[i + 1], lines[i]
        return kind, "\n".join(lines)
    if kind == "dup-line" and lines:
        i = rng.randrange(len(lines))
        return kind, "\n".join(lines[:i + 1] + [lines[i]] + lines[i + 1:])
    if kind == "unterminated":
        q = rng.choice(["'", '"', "f'", 'f"{', "'''", 'f"""{x', "r'"])
        i = rng.randrange(len(lines))
        lines[i] = lines[i] + " " + q
        return kind, "\n".join(lines)
    if kind == "unbalanced":
        b = rng.choice("([{)]}")
        p = rng.randrange(len(text) + 1)
        return kind, text[:p] + b + text[p:]
    if kind == "nonascii":
        p = rng.randrange(len(text) + 1)
        return kind, text[:p] + rng.choice(["é", "€", "\u00a0", "日", "\u200b", "ß"]) + text[p:]
    if kind == "del-char" and text:
        p = rng.randrange(len(text))
        return kind, text[:p] + text[p + 1:]
    if kind == "trailing-ws":
        return kind, "\n".join(l + rng.choice(["", " ", "\t", "  "]) for l in lines)
    if kind == "bom":
        return kind, "\ufeff" + text
    if kind == "formfeed":
        p = rng.randrange(len(text) + 1)
        return kind, text[:p] + "\f" + text[p:]
    return "none", text


def cases(tier, seed):
    rng = random.Random(14000 + seed)
    bases = base_texts(seed)
    out = []
    n_pert = 3 if tier == "quick" else 12
    for name, t in bases:
        out.append({"key": name, "text": t, "pert": "none"})
    for r_ in range(n_pert):
        for name, t in bases:
            k, pt = perturb(t, rng)
            if pt != t:
                out.append({"key": f"{name}~{k}~{r_}", "text": pt, "pert": k})
    if tier == "quick":
        rng.shuffle(out)
        out = out[:1000]
    return out


def ren(s):
    m = {}

    def r(mo):
        k = mo.group(0)
        if k not in m:
            m[k] = f"__S{len(m)}__"
        return m[k]
    return IDRE.sub(r, s)


def node_dump(n):
    from fandango.language.grammar.nodes.repetition import Repetition
    from fandango.language.grammar.nodes.non_terminal import NonTerminalNode
    from fandango.language.grammar.nodes.terminal import TerminalNode

    d = [type(n).__name__, getattr(n, "id", None)]
    if isinstance(n, Repetition):
        d += [n.min, n.internal_max, n.bounds_constraint is not None]
    if isinstance(n, NonTerminalNode):
        d += [n.symbol.name(), n.sender, n.recipient]
    if isinstance(n, TerminalNode):
        d += [n.symbol.format_as_spec(), n.symbol.is_regex]
    d.append([node_dump(c) for c in n.children()])
    return d


def cons_dump(c):
    d = {"cls": type(c).__name__}
    try:
        d["spec"] = ren(c.format_as_spec())
    except Exception as e:
        d["spec"] = "raises " + type(e).__name__
    for attr in ("expression", "_left", "_right", "optimization_goal"):
        if hasattr(c, attr):
            d[attr] = ren(str(getattr(c, attr)))
    if hasattr(c, "searches"):
        d["searches"] = sorted((ren(k), type(v).__name__, v.format_as_spec()) for k, v in c.searches.items())
    if hasattr(c, "constraints"):
        d["constraints"] = [cons_dump(x) for x in c.constraints]
    for attr in ("statement", "antecedent", "consequent"):
        if hasattr(c, attr):
            d[attr] = cons_dump(getattr(c, attr))
    if hasattr(c, "bound"):
        d["bound"] = str(c.bound if isinstance(c.bound, str) else c.bound.name())
    if hasattr(c, "expr_data_min"):
        d["rep"] = (ren(c.expr_data_min[0]), ren(c.expr_data_max[0]), c.repetition_id)
    return d


def product(src):
    from fandango.language.parse.parse_spec import parse_content

    sp = parse_content(src, filename="<c14>", use_cache=False)
    return {
        "rules": {k.name(): node_dump(v) for k, v in sp.grammar.rules.items()},
        "gens": {k.name(): (ren(g.call), sorted((ren(a), b.format_as_spec()) for a, b in g.nonterminals.items())) for k, g in sp.grammar.generators.items()},
        "cons": [cons_dump(c) for c in sp.constraints],
        "code": sp.code_text,
        "mode": str(sp.grammar.fuzzing_mode),
    }


def run_case(c):
    import io
    import contextlib
    import fandango
    from fandango.language.parser import sa_fandango

    text = c["text"]
    stats = {"evaluations": 1}
    out = {}
    old = fandango.Fandango.parser
    try:
        for p in ("cpp", "python"):
            fandango.Fandango.parser = p
            try:
                with contextlib.redirect_stderr(io.StringIO()), contextlib.redirect_stdout(io.StringIO()):
                    out[p] = ("ok", product(text))
            except Exception as e:
                cls = type(e).__name__
                # both front ends report syntax errors through the same listener class; anything else is still "reject"
                out[p] = ("err", cls)
    finally:
        fandango.Fandango.parser = old
        sa_fandango.USE_CPP_IMPLEMENTATION = True
    a, b = out["cpp"], out["python"]
    violations = []
    stats["pert:" + c["pert"]] = 1
    if a[0] == "ok" and b[0] == "ok":
        stats["both_accept"] = 1
        if a[1] != b[1]:
            keys = [k for k in a[1] if a[1][k] != b[1][k]]
            detail = ""
            for k in keys[:1]:
                detail = f"; {k}: C++ {str(a[1][k])[:160]!r} vs Python {str(b[1][k])[:160]!r}"
            violations.append({"what": f"both front ends accept {text[:120]!r} but the products differ in {keys}{detail}", "mech": None, "text": text})
    elif a[0] == "err" and b[0] == "err":
        stats["both_reject"] = 1
        if a[1] != b[1]:
            stats["both_reject_different_error_class"] = 1
    else:
        violations.append({"what": f"accept/reject disagreement on {text[:160]!r} ({c['pert']}): C++ front end {a[0]} {a[1] if a[0] == 'err' else ''}, "
                                   f"Python front end {b[0]} {b[1] if b[0] == 'err' else ''}", "mech": None, "text": text})
    res = {"status": "violation" if violations else "ok", "violations": violations, "stats": stats,
           "nontrivial": len(text.strip()) > 0, "distinct_key": text}
    if hash(c["key"]) % 50 == 0 or violations:
        res["sample"] = {"text": text[:300], "perturbation": c["pert"], "cpp": a[0], "python": b[0]}
    return res


def EXTRA_COVERAGE(stats, results, tier):
    return {"programs": int(stats.get("evaluations", 0)), "disagreements_checked": sum(len(r.get("violations") or []) for r in results)}
