"""C04 -- parsing is sound: every yielded tree derives exactly the input."""
import itertools
import random

ID = "C04"
LEVEL = "exploration"
RULE = ("cases: generated grammar (text / bytes / bits / mixed / unaligned bit structs / ambiguous) x input set: words of the reference "
        "language, fandango-fuzzed words, near misses (del/ins/sub/swap/trunc/dup/ext, bit flips), noise, inputs for other start symbols. "
        "Every tree yielded by parse_forest (<= 200 per input), parse, and Fandango.parse (with word-level constraints whose truth the harness "
        "computes from the input itself) must pass the derivation checker from the requested start symbol, contain no helper symbol, and have a "
        "reference serialisation equal to the input; an input rejected by the reference recogniser must yield nothing. Non-trivial: input != '' "
        "and >= 1 admission happened; distinct by (grammar, start, input).")
TIMEOUTS = {"quick": (60, 300), "thorough": (150, 2400)}
MIN = {"quick": {"cases": 150, "nontrivial": 2000, "observed": {"trees_checked": 2000, "inputs_rejected_by_both": 500, "api_constraint_filtered": 20}},
       "thorough": {"cases": 2000, "nontrivial": 30000, "observed": {"trees_checked": 30000}}}
ASSUMPTIONS = ["reference derivation checker / recogniser (vf/ref/grammar_model.py) read the grammar from /verif's own AST",
               "parses that exceed the step budget are counted as inconclusive inputs (C06 decides termination)"]

PROFILES = [
    ("text", dict(kind="text")),
    ("text-ambiguous", dict(kind="text", regex=0.4, regex_delimited=False, max_rep=3)),
    ("text-deep", dict(kind="text", depth=4, max_nts=5, recursion=0.5)),
    ("bytes", dict(kind="bytes")),
    ("bits", dict(kind="bits")),
    ("mixed", dict(kind="mixed")),
    ("bitstruct", None),
    ("bits-unaligned", "unaligned"),
    ("text-nonascii", dict(kind="text", non_ascii=0.3)),
]

WORD_CONSTRAINTS = [
    # (text constraint template with {conv}, predicate on the raw input)
    ("len({conv}(<start>)) % 2 == 0", lambda w: len(w) % 2 == 0),
    ("len({conv}(<start>)) > 3", lambda w: len(w) > 3),
    ("len({conv}(<start>)) != 2", lambda w: len(w) != 2),
    ("not {conv}(<start>).startswith({a})", None),
    ("{conv}(<start>).count({a}) <= 1", None),
]


def cases(tier, seed):
    rng = random.Random(4000 + seed)
    n = 192 if tier == "quick" else 2400
    return [{"key": f"{PROFILES[i % len(PROFILES)][0]}-{i}", "profile": PROFILES[i % len(PROFILES)][0],
             "gseed": rng.randrange(1 << 30), "seed": rng.randrange(1 << 30), "tier": tier} for i in range(n)]


def setup():
    from vf.monitors import steps

    steps.install()


def build(c):
    from vf.gen import specgen
    from vf.ref.grammar_model import RefGrammar

    rng = random.Random(c["gseed"])
    prof = dict(PROFILES)[c["profile"]]
    if prof == "unaligned":
        rules = specgen.unaligned_bits_grammar(rng)
        model = RefGrammar(specgen.model_rules(rules))
        feats = specgen.syntactic_features(rules) | {"bits-unaligned"}
    elif prof is None:
        rules = specgen.bitstruct_grammar(rng)
        model = RefGrammar(specgen.model_rules(rules))
        feats = specgen.syntactic_features(rules) | {"bitstruct"}
    else:
        rules, feats, model = specgen.random_grammar(rng, specgen.Profile(**prof))
    return rules, feats, model


def run_case(c):
    from collections import Counter
    from fandango import Fandango
    from fandango.language.grammar import ParsingMode
    from vf.gen import specgen, inputs
    from vf.monitors import steps
    from vf.ref import treeval
    from vf.trees import pretty

    rules, feats, model = build(c)
    model.text_in_binary = "both"   # abstention: Latin-1 vs UTF-8 reading of text terminals in binary grammars (C05/C09)
    rng = random.Random(c["seed"])
    text = specgen.to_spec(rules)
    f = Fandango(text, use_stdlib=False)
    binary = model.binary
    stats = Counter()
    violations = []
    distinct = set()
    names = list(rules)
    alpha = inputs.alphabet(model)
    # ---- input pool: model-level words as text (binary: latin-1 view of the bytes)
    pool = []   # (start, input-for-fandango)
    def as_text(inp):
        return inp.decode("latin-1") if isinstance(inp, bytes) else inp
    def as_input(t):
        return t.encode("latin-1") if binary else t
    for st in names[:3]:
        ws = model.words(st, max_len=8 if not binary else 6, cap=400)
        rng.shuffle(ws)
        for w in ws[:10 if st == "<start>" else 3]:
            inp = inputs.to_input(w, binary)
            if inp is not None:
                pool.append((st, inp))
            elif binary and len(w) % 8:
                # a word that is not a whole number of bytes, completed to bytes with arbitrary bits: the input belongs to
                # the language only if all of it is derived (the reference decides)
                padded = w + "".join(rng.choice("01") for _ in range(8 - len(w) % 8))
                pool.append((st, inputs.to_input(padded, binary)))
                stats["inputs_from_unaligned_words"] += 1
    random.seed(c["seed"])
    for _ in range(8):
        try:
            t = f.grammar.fuzz("<start>", max_nodes=rng.choice([5, 20, 60]))
        except Exception:
            continue
        seq = treeval.leaf_seq(t)
        inp = treeval.to_bytes(seq) if binary else treeval.to_str(seq)
        if inp is not None and len(inp) <= 60:
            pool.append(("<start>", inp))
    valid = list(pool)
    for st, inp in valid[:12]:
        for nm in inputs.near_misses(as_text(inp), rng, alpha, n=5):
            try:
                pool.append((st, as_input(nm)))
            except UnicodeEncodeError:
                pass
        if binary:
            for bf in inputs.bitflips(inp, rng, 2):
                pool.append((st, bf))
    for _ in range(6):
        s = "".join(rng.choice(alpha) for _ in range(rng.randint(0, 6)))
        try:
            pool.append(("<start>", as_input(s)))
        except UnicodeEncodeError:
            pass
    if len(names) > 1:
        for st, inp in valid[:4]:
            pool.append((rng.choice(names[1:]), inp))
    seen_inputs = set()
    for st, inp in pool:
        if (st, inp) in seen_inputs:
            continue
        seen_inputs.add((st, inp))
        word = inputs.from_input(inp, binary)
        ref_ok = model.accepts(word, st)
        # the order of requests on the shared object varies per input: a result cached by an earlier request (of either
        # mode) is what a later one may be answered from
        order = rng.choice([("forest", "first", "forest-after-prefix"), ("forest-after-prefix", "forest", "first"),
                            ("first", "forest-after-prefix", "forest"), ("forest-after-prefix", "first", "forest")])
        for mode in order:
            steps.reset(budget=150000)
            trees = []
            try:
                if mode == "forest-after-prefix":
                    # soundness must not depend on earlier requests: a prefix-mode parse of the same input (exhausted,
                    # and first-tree-only) precedes the complete-mode request on the same object
                    if rng.random() < 0.5:
                        list(itertools.islice(f.grammar.parse_forest(inp, st, mode=ParsingMode.INCOMPLETE), 60))
                    else:
                        f.grammar.parse(inp, st, mode=ParsingMode.INCOMPLETE)
                    steps.reset(budget=150000)
                    gen = f.grammar.parse_forest(inp, st, mode=ParsingMode.COMPLETE)
                    trees = list(itertools.islice(gen, 200))
                elif mode == "forest":
                    gen = f.grammar.parse_forest(inp, st, mode=ParsingMode.COMPLETE)
                    trees = list(itertools.islice(gen, 200))
                else:
                    t = f.grammar.parse(inp, st)
                    trees = [t] if t is not None else []
            except steps.StepBudgetExceeded:
                stats["inputs_step_budget"] += 1
                continue
            except Exception as e:
                stats["parse_raised:" + type(e).__name__] += 1
                continue
            admissions = steps.S.count
            stats["requests"] += 1
            if inp and admissions > 0:
                distinct.add((st, repr(inp)))
            if not trees:
                stats["inputs_rejected_by_both" if not ref_ok else "inputs_rejected_ref_accepts"] += 1
            for t in trees:
                stats["trees_checked"] += 1
                where = f"parse({mode}) of {inp!r} from {st}"
                probs = model.check_tree(t, st)
                if probs:
                    violations.append({"what": f"{where}: yielded tree is not a derivation: {probs[0][1]} at {list(probs[0][0])}", "tree": pretty(t)[:500], "mech": None})
                    continue
                seq = treeval.leaf_seq(t)
                ser = treeval.to_bytes(seq) if binary else treeval.to_str(seq)
                if binary and isinstance(inp, bytes):
                    same = ser == inp
                else:
                    same = ser == inp
                if not same:
                    violations.append({"what": f"{where}: serialisation of the yielded tree {ser!r} differs from the input", "tree": pretty(t)[:500], "mech": None})
                elif not ref_ok:
                    violations.append({"what": f"{where}: a tree was yielded for an input the reference recogniser rejects", "tree": pretty(t)[:500], "mech": None})
    # ---- API level with word-level constraints
    conv = "bytes" if binary else "str"
    a_lit = repr(as_input(alpha[0])) if alpha else repr(as_input("a"))
    a_val = as_input(alpha[0]) if alpha else as_input("a")

    def mkpred(tmpl, pred):
        if pred is not None:
            return pred
        if "startswith" in tmpl:
            return lambda w: not w.startswith(a_val)
        return lambda w: w.count(a_val) <= 1

    combos = [rng.sample(WORD_CONSTRAINTS, 1), rng.sample(WORD_CONSTRAINTS, 2), rng.sample(WORD_CONSTRAINTS, 3)]
    for combo in combos:
        ctexts = [t.format(conv=conv, a=a_lit) for t, _ in combo]
        preds = [mkpred(t, p) for t, p in combo]
        ctext = " ; ".join(ctexts)
        pred = lambda w, preds=preds: all(p(w) for p in preds)     # every constraint of the spec must hold
        try:
            f2 = Fandango(specgen.to_spec(rules, constraints=ctexts), use_stdlib=False)
        except Exception as e:
            stats["api_spec_rejected"] += 1
            continue
        for st, inp in valid[:12]:
            if st != "<start>":
                continue
            steps.reset(budget=150000)
            try:
                trees = list(itertools.islice(f2.parse(inp), 50))
            except steps.StepBudgetExceeded:
                stats["inputs_step_budget"] += 1
                continue
            except Exception as e:
                stats["api_parse_raised:" + type(e).__name__] += 1
                continue
            stats["api_requests"] += 1
            want = pred(inp)
            if not want:
                stats["api_constraint_filtered"] += 1
            for t in trees:
                stats["trees_checked"] += 1
                if not want:
                    violations.append({"what": f"Fandango.parse yielded a tree for {inp!r} although constraint `{ctext}` is false for it", "tree": pretty(t)[:400], "mech": None})
                probs = model.check_tree(t, "<start>")
                if probs:
                    violations.append({"what": f"Fandango.parse({inp!r}): tree is not a derivation: {probs[0][1]}", "tree": pretty(t)[:400], "mech": None})
    stats["evaluations"] = stats["requests"] + stats["api_requests"]
    for ft in feats:
        stats["feat:" + ft] = 1
    res = {"status": "violation" if violations else "ok", "violations": violations[:5], "stats": dict(stats),
           "nontrivial": bool(distinct), "distinct_keys": [[c["key"], s, i] for s, i in sorted(distinct)]}
    if hash(c["key"]) % 30 == 0 or violations:
        res["sample"] = {"spec": text, "inputs": [repr(i) for _, i in pool[:12]], "trees_checked": stats["trees_checked"]}
    return res
