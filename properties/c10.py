"""C10 -- tree bookkeeping stays consistent under any edits; edits never alias."""
import copy
import random

ID = "C10"
LEVEL = "exploration"
RULE = ("cases: grammar (hand-written: recursive, computed repetition, bits/bytes, regex, generator-defined fields with source trees) x random history (length 1-40) over the public tree operations: add_child, set_children, "
        "edits taken back (edit-undo), symbol/sender/recipient setters, append, replace, replace_multiple, deepcopy variants, prefix, split_end, [i], [i:j], find_all_trees / "
        "find_direct_trees / find_all_nodes, flatten, selector searches through real constraints (incl. slices), str/bytes/to_bits, collapse, parse "
        "results, crossover, mutation, repair (fix_individual with repetition insert/delete and equality repair). After EVERY step an invariant walker "
        "visits all live trees: size()/hash()/== against a from-scratch rebuild, child.parent identity; read-only and new-tree steps are bracketed by "
        "dumps of their inputs; outputs are perturbed in place and inputs re-dumped. Plus real search runs in which every emitted solution is retained and "
        "re-dumped at the end. Non-trivial: >= 1 mutating or tree-producing op; distinct by history.")
TIMEOUTS = {"quick": (90, 420), "thorough": (300, 2400)}
MIN = {"quick": {"cases": 200, "nontrivial": 1500, "observed": {"steps": 20000, "walker_nodes": 500000, "op:slice": 500, "op:replace": 500, "op:crossover": 300, "op:constraint-check": 500}},
       "thorough": {"cases": 2500, "nontrivial": 20000, "observed": {"steps": 300000}}}
ASSUMPTIONS = ["ParserDerivationTree objects internal to the Earley table deliberately skip size maintenance and are not walked",
               "hash collisions are only checked where they occur (equal dump <=> ==)"]

GRAMMARS = [
    "<start> ::= <a> (',' <a>)*\n<a> ::= <d>+ | '(' <start> ')'\n<d> ::= '0' | '1' | '2'\n",
    "<start> ::= <n> <x>{int(<n>)} ';' <tail>\n<n> ::= '1' | '2' | '3'\n<x> ::= 'a' | 'b' <x>?\n<tail> ::= <x>*\n",
    "<start> ::= <hdr> <body>\n<hdr> ::= <bit>{4} <bit>{4}\n<bit> ::= 0 | 1\n<body> ::= (b'\\x01' | b'ab')* <bit>{8}\n",
    "<start> ::= <k> '=' <v> (';' <k> '=' <v>)*\n<k> ::= r'[a-c]+'\n<v> ::= <k> | r'[0-9]+' | '[' <start> ']'\n",
    # generator-defined fields: nodes that carry source trees (generator arguments) next to their children
    "<start> ::= <word> ':' <copy> (';' <pair>)*\n<word> ::= <l>+\n<l> ::= 'a' | 'b' | 'c'\n<copy> ::= <word> := str(<word>)\n"
    "<pair> ::= <l> '=' <twice>\n<twice> ::= <l> <l> := str(<l>) * 2\n",
]
CONSTRAINTS = {
    0: ["int(<d>) >= 0", "len(str(<a>)) < 9", "str(<start>[0]) != '9'", "len(<a>[0:2]) >= 0", "all(int(x) < 3 for x in *<d>)",
        "str(<start>.<a>) != ''", "str(<start>..<d>) != 'x'", "|<a>..<d>| >= 0", "<a>[0] == '1'", "<start>[0:1] != 'zz'"],
    1: ["int(<n>) > 0", "str(<tail>) != 'zz'", "len(<start>[1:3]) >= 0", "str(<x>[0]) in 'ab'"],
    2: ["len(<body>[0:2]) >= 0", "<hdr> != None"],
    3: ["str(<k>) != ''", "len(str(<v>)) > 0", "str(<start>[0:2]) != ''", "<k> == 'abc'"],
    4: ["str(<copy>) != ''", "len(str(<word>)) < 4", "str(<twice>) != 'ab'", "<word> == 'abc'"],
}


def cases(tier, seed):
    rng = random.Random(10000 + seed)
    n = 320 if tier == "quick" else 4000
    out = []
    for i in range(n):
        kind = "search" if i % 8 == 7 else "history"
        out.append({"key": f"{kind}-{i}", "kind": kind, "g": i % len(GRAMMARS), "seed": rng.randrange(1 << 30),
                    "histories": 6 if tier == "quick" else 10})
    return out


def setup():
    from vf.monitors import steps

    steps.install()


def dumpx(t):
    from vf.trees import sym_key

    return (sym_key(t.symbol), t.sender, t.recipient, bool(t.read_only), tuple(t.origin_repetitions),
            tuple(dumpx(c) for c in t._children), tuple(dumpx(s) for s in t._sources))


def rebuild(t):
    from fandango.language.tree import DerivationTree

    return DerivationTree(t.symbol, [rebuild(c) for c in t._children], sender=t.sender, recipient=t.recipient)


def count(t):
    return 1 + sum(count(c) for c in t._children)


def walk(t, probs, where, stats):
    from fandango.language.tree import SliceTree

    stack = [t]
    n = 0
    while stack:
        x = stack.pop()
        n += 1
        try:
            if x.size() != count(x):
                probs.append(f"{where}: size() = {x.size()} but the node has {count(x)} nodes ({x.symbol.format_as_spec()})")
            if hash(x) != hash(rebuild(x)):
                probs.append(f"{where}: hash() of node {x.symbol.format_as_spec()} differs from the hash of a structurally rebuilt copy (stale cache)")
        except Exception as e:
            probs.append(f"{where}: walker raised {type(e).__name__}: {str(e)[:80]}")
        if not isinstance(x, SliceTree):
            for c in x._children:
                if c._parent is not x:
                    probs.append(f"{where}: child {c.symbol.format_as_spec()} of {x.symbol.format_as_spec()} has a parent link to another node")
        stack.extend(x._children)
        for s in x._sources:
            stack.append(s)
        if len(probs) > 3:
            break
    stats["walker_nodes"] += n


def run_case(c):
    from collections import Counter
    from fandango import Fandango
    from fandango.language.tree import DerivationTree, SliceTree
    from fandango.language.symbols import Terminal, NonTerminal
    from fandango.evolution.crossover import SimpleSubtreeCrossover
    from fandango.evolution.mutation import SimpleMutation
    from fandango.evolution.population import PopulationManager
    from fandango.evolution import GeneratorWithReturn
    from fandango.constraints.failing_tree import FailingTree, NopSuggestion
    from vf.trees import shape, pretty
    from vf.monitors import steps

    rng = random.Random(c["seed"])
    stats = Counter()
    violations = []
    gi = c["g"]
    text = GRAMMARS[gi]
    f = Fandango(text, use_stdlib=False)
    g = f.grammar
    cons = []
    for ct in CONSTRAINTS[gi]:
        try:
            cons.append((ct, Fandango(text + "where " + ct + "\n", use_stdlib=False).constraints[-1]))
        except Exception:
            stats["constraint_rejected"] += 1
    nts = [n.name() for n in g.rules]
    distinct = 0

    if c["kind"] == "search":
        # real search runs; every emitted solution is retained by the caller and must not change afterwards
        ct = rng.choice(CONSTRAINTS[gi])
        ff = Fandango(text + "where " + ct + "\n", use_stdlib=False)
        held = []
        try:
            ff.init_population(population_size=10, max_nodes=60, random_seed=c["seed"] & 0xFFFF)
            for sol in ff.generate_solutions(max_generations=4):
                held.append((sol, dumpx(sol)))
                probs = []
                for s, d in held:
                    if dumpx(s) != d:
                        probs.append("an already emitted solution changed while the search went on")
                if probs:
                    violations.append({"what": probs[0] + f" (constraint `{ct}`)", "mech": None})
                    break
                if len(held) > 60:
                    break
        except Exception as e:
            stats["search_raised:" + type(e).__name__] += 1
        for s, d in held:
            probs = []
            walk(s, probs, "emitted solution", stats)
            if dumpx(s) != d:
                probs.append("an already emitted solution changed after emission")
            for p in probs[:1]:
                violations.append({"what": p + f" (constraint `{ct}`)", "mech": None})
        if ff.fandango is not None:
            for s in ff.fandango.population:
                probs = []
                walk(s, probs, "population member at end of run", stats)
                for p in probs[:1]:
                    violations.append({"what": p + f" (constraint `{ct}`)", "mech": None})
        stats["search_runs"] += 1
        stats["solutions_held"] += len(held)
        stats["steps"] += len(held)
        return {"status": "violation" if violations else "ok", "violations": violations[:3], "stats": dict(stats),
                "nontrivial": len(held) > 0, "distinct_count": 1 if held else 0}

    OPS = ["replace", "replace_multiple", "deepcopy", "deepcopy-variant", "prefix", "split_end", "index", "slice", "find", "flatten", "value",
           "add_child", "set_children", "edit-undo", "symbol", "sender", "append", "crossover", "mutate", "repair", "constraint-check", "parse", "collapse", "eqcheck"]
    pm = PopulationManager(g, "<start>")
    for h in range(c["histories"]):
        random.seed(rng.randrange(1 << 30))
        live = [g.fuzz("<start>", rng.choice([5, 20, 60])) for _ in range(3)]
        hist = []
        mutating = False
        for step in range(rng.randint(1, 40)):
            op = rng.choice(OPS)
            t = rng.choice(live)
            before = [dumpx(x) for x in live]
            pure = True      # the step must leave every live tree unchanged
            outputs = []
            try:
                nodes = [n for n in t.flatten() if n.symbol.is_non_terminal]
                n = rng.choice(nodes)
                if op == "replace":
                    new = g.fuzz(n.symbol, 10)
                    outputs.append(t.replace(g, n, new))
                elif op == "replace_multiple":
                    picks = rng.sample(nodes, min(len(nodes), 2))
                    outputs.append(t.replace_multiple(g, [(p, g.fuzz(p.symbol, 8)) for p in picks]))
                elif op == "deepcopy":
                    outputs.append(copy.deepcopy(t))
                elif op == "deepcopy-variant":
                    outputs.append(n.deepcopy(copy_children=rng.random() < 0.8, copy_params=rng.random() < 0.5, copy_parent=rng.random() < 0.5).get_root())
                elif op == "prefix":
                    if n.parent is not None:
                        outputs.append(n.prefix().get_root())
                elif op == "split_end":
                    outputs.append(n.split_end().get_root())
                elif op == "index":
                    if n.children:
                        n[rng.randrange(len(n.children))]
                elif op == "slice":
                    a = rng.randint(0, 2)
                    sl = n[a:a + rng.randint(0, 3)]
                    str(sl) if rng.random() < 0.5 else None
                    hash(sl)
                elif op == "find":
                    sym = NonTerminal(rng.choice(nts))
                    t.find_all_trees(sym), t.find_direct_trees(sym), t.find_all_nodes(sym), t.get_non_terminal_symbols()
                elif op == "flatten":
                    t.flatten(), t.descendants(), t.get_index(n), n.get_path(), n.get_choices_path(), n.get_root()
                elif op == "value":
                    for fn in (str, bytes, lambda x: x.to_bits(), int, lambda x: x.to_value(), lambda x: x.to_tree(), lambda x: x.to_repr(), lambda x: x.to_grammar()):
                        try:
                            fn(n)
                        except Exception:
                            pass
                elif op == "add_child":
                    pure = False
                    n.add_child(g.fuzz(rng.choice(nts), 3))
                elif op == "set_children":
                    pure = False
                    n.set_children([g.fuzz(rng.choice(nts), 3) for _ in range(rng.randint(0, 2))])
                elif op == "edit-undo":
                    # an edit taken back through the same public mutators: the caches must follow both ways
                    pure = False
                    old_children = list(n._children)
                    if rng.random() < 0.5:
                        n.add_child(g.fuzz(rng.choice(nts), 3))
                    else:
                        n.set_children([g.fuzz(rng.choice(nts), 3)])
                    if rng.random() < 0.8:
                        n.set_children(old_children)
                    else:
                        n.set_children([copy.deepcopy(x) for x in old_children])
                elif op == "symbol":
                    pure = False
                    n.symbol = NonTerminal(rng.choice(nts))
                elif op == "sender":
                    pure = False
                    if rng.random() < 0.5:
                        n.sender = rng.choice(["P", "Q", None])
                    else:
                        n.recipient = rng.choice(["P", "Q", None])
                elif op == "append":
                    pure = False
                    root = t
                    if root.children and root.children[-1].symbol.is_non_terminal and rng.random() < 0.6:
                        root.append(((root.children[-1].symbol, False),), g.fuzz(rng.choice(nts), 3))
                    else:
                        root.append(((NonTerminal(rng.choice(nts)), True),), g.fuzz(rng.choice(nts), 3))
                elif op == "crossover":
                    r = SimpleSubtreeCrossover().crossover(g, t, rng.choice(live))
                    if r:
                        outputs.extend(r)
                elif op == "mutate":
                    def ev(ind):
                        cands = [x for x in ind.flatten() if x.symbol.is_non_terminal]
                        return (0.0, [FailingTree(rng.choice(cands), None)], NopSuggestion())
                        yield
                    r = GeneratorWithReturn(SimpleMutation().mutate(t, g, ev))
                    list(r)
                    if r.return_value is not t:
                        outputs.append(r.return_value)
                elif op == "repair":
                    # repetition-bound constraints of the grammar take part in repairs, too
                    pool = [x for _, x in cons] + list(f.constraints)
                    if pool:
                        con = rng.choice(pool)
                        steps.reset(budget=500000)
                        fit = con.fitness(t)
                        stats["repair:" + type(con).__name__] += 1
                        sug = getattr(fit, "suggestion", None)
                        if sug is not None:
                            out, nfix = pm.fix_individual(t, sug)
                            if out is not t:
                                outputs.append(out)
                elif op == "constraint-check":
                    if cons:
                        ct, con = rng.choice(cons)
                        con.check(t)
                        con.fitness(t)
                elif op == "parse":
                    try:
                        w = bytes(t) if t.should_be_serialized_to_bytes() else str(t)
                    except Exception:
                        w = None
                    if w is not None and len(w) < 40:
                        steps.reset(budget=300000)
                        r = g.parse(w)
                        if r is not None:
                            outputs.append(r)
                elif op == "collapse":
                    steps.reset(budget=300000)
                    try:
                        w = bytes(t) if t.should_be_serialized_to_bytes() else str(t)
                        if len(w) < 30:
                            for r in list(g.parse_forest(w, include_controlflow=True))[:2]:
                                d_in = dumpx(r)
                                col = g.collapse(r)
                                if dumpx(r) != d_in:
                                    violations.append({"what": "collapse() modified its input tree", "mech": None})
                                if col is not None:
                                    outputs.append(col)
                    except steps.StepBudgetExceeded:
                        pass
                    except Exception:
                        pass
                elif op == "eqcheck":
                    u = rng.choice(live)
                    if (shape(t) == shape(u)) != (t == u):
                        violations.append({"what": f"== disagrees with structural equality: {pretty(t)[:120]} vs {pretty(u)[:120]}: == gives {t == u}", "mech": None})
            except steps.StepBudgetExceeded:
                stats["step_budget"] += 1
            except Exception as e:
                stats["op_raised:" + op + ":" + type(e).__name__] += 1
            stats["steps"] += 1
            stats["op:" + op] += 1
            hist.append(op)
            probs = []
            if pure:
                after = [dumpx(x) for x in live]
                if after != before:
                    k = next(i for i in range(len(before)) if after[i] != before[i])
                    probs.append(f"operation `{op}` (documented to return a new tree / to be read-only) changed a tree the caller holds: {pretty(live[k])[:160]}")
            else:
                mutating = True
            if outputs:
                mutating = True
            # aliasing: perturb the outputs in place, the inputs must not move
            if outputs and pure:
                for o in outputs:
                    try:
                        onodes = [x for x in o.flatten() if x.symbol.is_non_terminal]
                        x = rng.choice(onodes)
                        x.add_child(DerivationTree(Terminal("PERTURB")))
                        x.sender = "Z"
                        if x.origin_repetitions:
                            x.origin_repetitions.append(("perturb", 0, 0))
                    except Exception:
                        pass
                after = [dumpx(x) for x in live]
                if after != before:
                    k = next(i for i in range(len(before)) if after[i] != before[i])
                    probs.append(f"editing the tree returned by `{op}` changed one of its inputs (aliasing): {pretty(live[k])[:160]}")
            live.extend(o for o in outputs if isinstance(o, DerivationTree))
            for x in live:
                walk(x.get_root() if not isinstance(x, SliceTree) else x, probs, f"after `{op}` (history {hist[-5:]})", stats)
                if probs:
                    break
            if probs:
                violations.append({"what": probs[0], "mech": None, "history": hist})
                break
            live = live[-6:]
        if mutating:
            distinct += 1
        stats["histories"] += 1
        if len(violations) >= 3:
            break
    stats["evaluations"] = stats["steps"]
    res = {"status": "violation" if violations else "ok", "violations": violations[:3], "stats": dict(stats),
           "nontrivial": distinct > 0, "distinct_count": distinct}
    if hash(c["key"]) % 40 == 0 or violations:
        res["sample"] = {"grammar": text, "last_history": hist[-12:]}
    return res
