"""C17 -- fixed seeds reproduce the same run."""
import random

ID = "C17"
LEVEL = "exploration"
RULE = ("cases: configuration = (spec: harvested deterministic spec | generated spec with constraints / generators / computed repetitions, settings grid, "
        "random_seed, inputs to parse). Each configuration is run twice in FRESH interpreters with the same PYTHONHASHSEED; the second process is perturbed in "
        "ways that must not matter (tens of thousands of extra heap objects before import, shifted clocks, another working directory, other import order, "
        "extra environment variables). Compared byte for byte: the emitted solutions in order and the canonical dumps of the parse results. Both the Python "
        "API and the real CLI (`fandango fuzz --random-seed`, output files) are exercised. Non-trivial: >= 1 solution or parse result in the compared log; "
        "distinct by configuration.")
TIMEOUTS = {"quick": (150, 420), "thorough": (300, 3000)}
MIN = {"quick": {"cases": 35, "nontrivial": 25, "observed": {"process_pairs": 35, "solutions_compared": 150, "cli_pairs": 2}},
       "thorough": {"cases": 800, "nontrivial": 600, "observed": {"process_pairs": 800}}}
ASSUMPTIONS = ["specs whose own Python is nondeterministic (faker, time, uuid, urandom, sockets) are excluded by a static scan: their nondeterminism is the spec's",
               "PYTHONHASHSEED is part of the configuration (the statement fixes the hash seed)"]
NEED_CPP = True


def cases(tier, seed):
    from vf.gen import harvest
    from properties.c02 import SPECS
    from properties.c16 import TEMPLATES, PRELUDE

    rng = random.Random(17000 + seed)
    out = []
    files = [f for f in harvest.safe_complete_specs() if not harvest.looks_nondeterministic(harvest.read(f))]
    rng.shuffle(files)
    nh = 14 if tier == "quick" else len(files) * 4
    for i in range(nh):
        f = files[i % len(files)]
        out.append({"key": f"harvest-{f.split('/repo/')[-1]}-{i}", "cfg": {"file": f, "settings": _settings(rng), "random_seed": rng.randrange(10000)}})
    ng = 30 if tier == "quick" else 700
    from vf.gen import consgen
    from vf.ref import constraint_sem as cs
    names = ["kvc", "msg", "two", "recs", "grp"]      # recs/grp: several instances of one computed repetition in a tree
    for i in range(ng):
        text, info, reps = SPECS[names[i % len(names)]]
        cons = [consgen.rand_formula(rng, info) for _ in range(rng.choice([0, 1, 2]))]
        spec = text + "".join("where " + cs.to_text(x) + "\n" for x in cons)
        words = {"kvc": ["s:1a=1;", "s:2a=1;b=25;0", "s:0"], "msg": ["s:1:xyy", "s:2:[x]1"], "two": ["s:1p|178", "s:2pq|0"],
                 "recs": ["s:2:ab;1:a", "s:0:", "s:1:b;3:aba;0:"], "grp": ["s:1[4].", "s:2[45][6].end", "s:0."]}[names[i % len(names)]]
        out.append({"key": f"gen-{names[i % len(names)]}-{i}", "cfg": {"spec": spec, "settings": _settings(rng), "random_seed": rng.randrange(10000), "parse_inputs": words}})
    # hard disjunctions over different symbols: an unsatisfied individual reports failing parts from several disjuncts,
    # and the search has to go through many mutation / crossover generations
    for i in range(8 if tier == "quick" else 120):
        k = rng.choice([3, 4])
        rel = rng.choice(["int(<a>) == 3 * int(<b>) + 17 or int(<c>) + int(<d>) == {t}", "int(<a>) + int(<b>) == {t} or int(<c>) == 2 * int(<d>) + 1 or int(<a>) == int(<d>) + 7",
                          "(int(<a>) == int(<b>) + 1 and int(<c>) > int(<d>)) or int(<b>) * 2 == int(<c>) + {t}", "int(<a>) == {t} or int(<b>) == {t} or int(<c>) == {t} or int(<d>) == {t}"])
        spec = ("<start> ::= <a> ',' <b> ',' <c> ',' <d>\n" + "".join(f"<{x}> ::= <digit>{{{k}}}\n" for x in "abcd") + "<digit> ::= '0' | '1' | '2' | '3' | '4' | '5' | '6' | '7' | '8' | '9'\n"
                + "where " + rel.format(t=rng.randrange(10 ** (k - 1), 10 ** k)) + "\n")
        st = dict(population_size=rng.choice([10, 20]), max_generations=rng.choice([15, 30]), desired_solutions=rng.choice([10, 25]))
        out.append({"key": f"disj-{i}", "cfg": {"spec": spec, "settings": st, "random_seed": rng.randrange(10000), "parse_inputs": [",".join(["7" * k] * 4), "12"]}})
    # several instances of one computed repetition in every tree, all of them usually violated at first (several repairs per
    # individual, each drawing from the global random state)
    for i in range(10 if tier == "quick" else 80):
        k = rng.choice([3, 4, 5])
        spec = ("<start> ::= " + " ';' ".join(["<rec>"] * k) + "\n<rec> ::= <n> ':' <item>{int(<n>)}\n<n> ::= '2' | '3' | '4' | '5' | '6' | '7'\n<item> ::= r'[a-z]'\n"
                + rng.choice(["", "", "where str(<item>) != 'q'\n"]))
        st = dict(population_size=rng.choice([10, 20]), max_generations=rng.choice([10, 20]), desired_solutions=rng.choice([15, 30]))
        out.append({"key": f"multirep-{i}", "cfg": {"spec": spec, "settings": st, "random_seed": rng.randrange(10000), "parse_inputs": ["2:ab;3:abc;2:zz"]}})
    # ambiguous grammars: the ORDER of the parse forest (and of everything derived from it) is part of the result
    from properties.c12 import AMBIGUOUS, AMBIGUOUS_INPUTS
    AMB2 = [("<start> ::= <x> <x> <x>\n<x> ::= <a> <c> | <b> <c>\n<a> ::= 'p'\n<b> ::= 'p'\n<c> ::= 'q'\n", ["pqpqpq"]),
            ("<start> ::= <k> '-' <v>\n<k> ::= <a> <c> | <b> <c>\n<a> ::= 'p' | 'pp'\n<b> ::= 'p'+\n<c> ::= 'q'\n<v> ::= <digit>{2}\n<digit> ::= '0'|'1'|'2'|'3'|'4'|'5'|'6'|'7'|'8'|'9'\n"
             "where int(<v>) % 3 == 1\n", ["pq-10", "ppq-07"])]
    for i in range(8 if tier == "quick" else 60):
        if i % 4 < 2:
            spec, words = AMB2[i % 2]
        else:
            j = (i // 2) % len(AMBIGUOUS)
            spec, words = AMBIGUOUS[j], [w for w in AMBIGUOUS_INPUTS[j] if w]
        st = dict(population_size=rng.choice([5, 10]), max_generations=rng.choice([2, 4]), desired_solutions=rng.choice([5, 10]))
        out.append({"key": f"ambiguous-{i}", "cfg": {"spec": spec, "settings": st, "random_seed": rng.randrange(10000), "parse_inputs": ["s:" + w for w in words]}})
    tn = list(TEMPLATES)
    for i in range(6 if tier == "quick" else 100):
        body, cons = TEMPLATES[tn[i % len(tn)]]
        spec = PRELUDE + body + "where " + rng.choice(cons) + "\n"
        out.append({"key": f"generators-{tn[i % len(tn)]}-{i}", "cfg": {"spec": spec, "settings": _settings(rng), "random_seed": rng.randrange(10000)}})
    # CLI
    cli_specs = [f for f in files if f.endswith(("persons.fan", "digit.fan", "even_numbers.fan", "constraints.fan", "bar.fan", "int.fan"))]
    for i in range(4 if tier == "quick" else 40):
        f = cli_specs[i % len(cli_specs)] if cli_specs else files[i % len(files)]
        out.append({"key": f"cli-{f.split('/')[-1]}-{i}", "cli": True, "file": f, "n": rng.choice([3, 10]), "random_seed": rng.randrange(10000),
                    "extra": rng.choice([[], ["--population-size", "10"], ["--max-generations", "5"]])})
    return out


def _settings(rng):
    st = dict(population_size=rng.choice([5, 10, 20, 40]), max_generations=rng.choice([2, 3, 5]), desired_solutions=rng.choice([5, 20]))
    if rng.random() < 0.5:
        st["max_nodes"] = rng.choice([30, 100, 200])
    if rng.random() < 0.3:
        st["elitism_rate"] = rng.choice([0.0, 0.2])
    if rng.random() < 0.3:
        st["mutation_rate"] = rng.choice([0.1, 0.5])
    if rng.random() < 0.3:
        st["crossover_rate"] = rng.choice([0.5, 0.9])
    if rng.random() < 0.2:
        st["max_repetitions"] = rng.choice([30, 60])
    return st


def run_child(cfg, timeout, hashseed="0", extra_env=None):
    import json
    import os
    import subprocess
    import tempfile

    fd, path = tempfile.mkstemp(prefix="vf-c17-", suffix=".json")
    with os.fdopen(fd, "w") as fh:
        json.dump(cfg, fh)
    env = {k: v for k, v in os.environ.items() if k not in ("FANDANGO_RAISE_ALL_EXCEPTIONS",)}
    env["PYTHONHASHSEED"] = hashseed
    env["VERIF_HOME"] = os.path.dirname(os.path.dirname(os.path.abspath(__file__)))
    env["PYTHONPATH"] = env["VERIF_HOME"]
    if extra_env:
        # different insertion order and extra variables
        env = dict(list(extra_env.items()) + list(reversed(list(env.items()))))
    py = os.environ.get("VERIF_PYTHON", "/venv/bin/python")
    try:
        r = subprocess.run([py, "-u", os.path.join(env["VERIF_HOME"], "vf", "proc", "run_spec.py"), path], capture_output=True, text=True,
                           timeout=timeout, env=env, cwd=env["VERIF_HOME"])
    except subprocess.TimeoutExpired:
        return None, "timeout"
    finally:
        try:
            os.unlink(path)
        except OSError:
            pass
    for line in r.stdout.splitlines():
        if line.startswith("VFLOG "):
            return json.loads(line[6:]), None
    return None, (r.stderr or r.stdout)[-400:]


def run_case(c):
    import shutil
    import tempfile
    from collections import Counter

    stats = Counter()
    violations = []
    rng = random.Random(hash(c["key"]) & 0xFFFF)
    pert = {"heap": rng.choice([20000, 37000, 90000]), "clock": rng.choice([1e6, 3.7e8]), "cwd": tempfile.mkdtemp(prefix="vf-c17-cwd-"),
            "imports": ["json", "decimal", "fractions", "xml.dom.minidom", "sqlite3", "email.mime.text"], "env": {"ZZ_VERIF_EXTRA": "1", "AA_VERIF_EXTRA": "2"}}
    outdirs = []
    try:
        if c.get("cli"):
            runs = []
            for k in range(2):
                d = tempfile.mkdtemp(prefix="vf-c17-out-")
                outdirs.append(d)
                argv = ["fuzz", "-f", c["file"], "-n", str(c["n"]), "--random-seed", str(c["random_seed"]), "-d", d] + c["extra"]
                cfg = {"mode": "cli", "argv": argv, "outdir": d, "perturb": pert if k == 1 else None}
                log, err = run_child(cfg, 120, extra_env={"ZZZ": "1"} if k == 1 else None)
                if log is None:
                    return {"status": "inconclusive", "reason": f"child failed: {err}"}
                # the directory name differs by construction; compare return code and file contents
                runs.append([log[0][1], log[0][3]])
            stats["process_pairs"] += 1
            stats["cli_pairs"] += 1
            stats["solutions_compared"] += len(runs[0][1])
            if runs[0] != runs[1]:
                violations.append({"what": f"`fandango fuzz -f {c['file'].split('/')[-1]} -n {c['n']} --random-seed {c['random_seed']}` wrote different outputs in two "
                                           f"fresh processes: {str(runs[0])[:200]} vs {str(runs[1])[:200]}", "mech": None})
            nontrivial = len(runs[0][1]) > 0
            sample = {"argv": argv[:-1], "files": len(runs[0][1])}
        else:
            import threading
            cfg = dict(c["cfg"])
            cfg2 = dict(cfg)
            cfg2["perturb"] = pert
            box = {}
            th = threading.Thread(target=lambda: box.__setitem__("b", run_child(cfg2, 140, extra_env={"ZZZ": "1"})))
            th.start()
            a, err = run_child(cfg, 140)
            th.join()
            if a is None:
                return {"status": "inconclusive", "reason": f"child failed: {err}"}
            b, err = box["b"]
            if b is None:
                return {"status": "inconclusive", "reason": f"perturbed child failed: {err}"}
            stats["process_pairs"] += 1
            nsol = sum(len(e[2]) for e in a if e[1] == "solutions")
            npar = sum(len(e[3]) for e in a if e[1] == "parse")
            stats["solutions_compared"] += nsol
            stats["parse_results_compared"] += npar
            a2 = [e for e in a if e[0] != "trace"]
            b2 = [e for e in b if e[0] != "trace"]
            if a2 != b2:
                k = next(i for i in range(min(len(a2), len(b2))) if a2[i] != b2[i]) if len(a2) == len(b2) else 0
                violations.append({"what": f"two fresh processes with the same spec, settings, random_seed={cfg.get('random_seed')} and PYTHONHASHSEED differ: "
                                           f"{str(a2[k])[:220]} vs {str(b2[k])[:220]}", "mech": None, "cfg": cfg})
            nontrivial = nsol + npar > 0
            sample = {"spec": (cfg.get("spec") or cfg.get("file"))[:300], "settings": cfg["settings"], "solutions": nsol, "parse_results": npar}
    finally:
        shutil.rmtree(pert["cwd"], ignore_errors=True)
        for d in outdirs:
            shutil.rmtree(d, ignore_errors=True)
    stats["evaluations"] = stats["process_pairs"]
    res = {"status": "violation" if violations else "ok", "violations": violations, "stats": dict(stats), "nontrivial": nontrivial, "distinct_key": c["key"]}
    if hash(c["key"]) % 10 == 0 or violations:
        res["sample"] = sample
    return res
