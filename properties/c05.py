"""C05 -- what Fandango generates, Fandango parses back; every word of the language is accepted."""
import itertools
import random

ID = "C05"
LEVEL = "exploration"
RULE = ("(b) completeness: generated grammars in the stated class (regex terminals delimited so they cannot split ambiguously) x every word "
        "of the reference language up to a length bound (reference enumerator, <= 400 words per start symbol): grammar.parse / parse_forest must "
        "accept it with an identical serialisation. (a) round trip: every tree from Grammar.fuzz (grammars without computed repetitions) and every "
        "emitted solution of search runs on generated and harvested specs is serialised as the CLI does (text / binary by get_file_mode's rule) and "
        "parsed back through Fandango.parse, which must yield >= 1 tree with the identical serialisation. Non-trivial: word with >= 2 terminals; "
        "distinct by (grammar, word).")
TIMEOUTS = {"quick": (60, 300), "thorough": (150, 2400)}
MIN = {"quick": {"cases": 120, "nontrivial": 1500, "observed": {"words_parsed": 3000, "roundtrips": 1000}},
       "thorough": {"cases": 2000, "nontrivial": 20000, "observed": {"words_parsed": 40000}}}
ASSUMPTIONS = ["grammar class as in the statement: generated regex terminals are followed by a delimiter outside their alphabet",
               "harvested specs may contain regexes that split ambiguously; a round-trip failure there is only reported when the reference recogniser "
               "(which explores all splits) accepts the word"]

PROFILES = [
    ("text", dict(kind="text")),
    ("text-emptyregex", dict(kind="text", regex=0.5)),
    ("text-deep", dict(kind="text", depth=4, max_nts=5, recursion=0.5)),
    ("text-optional-end", dict(kind="text", regex=0.1, max_rep=3)),
    ("bytes", dict(kind="bytes")),
    ("bits", dict(kind="bits")),
    ("mixed", dict(kind="mixed")),
    ("bitstruct", None),
    ("text-nonascii", dict(kind="text", non_ascii=0.3)),
    ("mixed-nonascii", dict(kind="mixed", non_ascii=0.3)),
]


def cases(tier, seed):
    rng = random.Random(5000 + seed)
    n = 160 if tier == "quick" else 2400
    out = [{"key": f"{PROFILES[i % len(PROFILES)][0]}-{i}", "kind": "gen", "profile": PROFILES[i % len(PROFILES)][0],
            "gseed": rng.randrange(1 << 30), "seed": rng.randrange(1 << 30)} for i in range(n)]
    from vf.gen import harvest

    for j, f in enumerate(harvest.safe_complete_specs()):
        for r_ in range(1 if tier == "quick" else 3):
            out.append({"key": f"harvest-{f.split('/repo/')[-1]}-{r_}", "kind": "harvest", "file": f, "seed": rng.randrange(1 << 30)})
    return out


def setup():
    from vf.monitors import steps

    steps.install()


def classify(model, word, start):
    """Mechanism keys ("a+b") of a completeness failure, from /verif's own analysis of grammar and word.

    Established counterfactually on the reference model: for a set K of suspected constructs a variant
    language is built in which none of them can be used; if the variant rejects the word, *every*
    derivation of the word needs one of K.  The smallest such K is returned (all of its members must be
    listed findings for the failure to count as known)."""
    import itertools as it
    import re
    from vf.ref.grammar_model import RefGrammar
    import fandango.language.grammar.nodes as fnodes

    exprs = list(model.all_exprs())
    nullable, _nul = model.nullable_set()
    refcount = {}
    for e in exprs:
        if e[0] == "nt":
            refcount[e[1]] = refcount.get(e[1], 0) + 1
    shared = {n for n in nullable if refcount.get(n, 0) >= 2}
    cap = fnodes.MAX_REPETITIONS

    def t_regex_empty(e):
        if e[0] == "regex" and re.fullmatch(e[1], "") is not None:
            return ("regex", "(?=[\\s\\S])(?:" + e[1] + ")", e[2])
        return e

    def t_nonascii(e):
        if e[0] == "lit" and isinstance(e[1], str) and any(ord(ch) > 127 for ch in e[1]):
            return ("regex", "(?!)", False)
        if e[0] == "regex" and not e[2]:
            # a text regex inside a binary grammar: only ASCII instances are unaffected
            return ("regex", "(?=[\\x00-\\x7f]*\\Z)(?:" + e[1] + ")", False)
        return e

    def t_shared(e):
        if e[0] == "nt" and e[1] in shared:
            return ("nonempty", e)
        return e

    def t_cap(e):
        if e[0] == "rep" and len(e) > 5 and e[5] == "{n,}" and e[3] is None and not e[4]:
            return ("rep", e[1], e[2], max(cap, e[2]), e[4], e[5])
        return e

    mechs = []
    if any(e[0] == "regex" and re.fullmatch(e[1], "") is not None for e in exprs):
        mechs.append(("regex-terminal-matched-empty", t_regex_empty))
    if model.binary and any((e[0] == "lit" and isinstance(e[1], str) and any(ord(ch) > 127 for ch in e[1])) or (e[0] == "regex" and not e[2]) for e in exprs):
        mechs.append(("non-ascii-text-in-binary-grammar", t_nonascii))
    if shared:
        mechs.append(("shared-nullable-nonterminal-derives-empty", t_shared))
    if any(e[0] == "rep" and len(e) > 5 and e[5] == "{n,}" and e[3] is None and not e[4] for e in exprs):
        mechs.append(("open-brace-repetition-capped-at-max-repetitions", t_cap))

    def variant(fns):
        def conv(e):
            k = e[0]
            if k in ("seq", "alt"):
                e = (k, tuple(conv(c) for c in e[1]))
            elif k == "rep":
                e = ("rep", conv(e[1])) + tuple(e[2:])
            for fn in fns:
                e = fn(e)
            return e
        m = RefGrammar({n: conv(r) for n, r in model.rules.items()}, binary=model.binary)
        m.text_in_binary = model.text_in_binary
        return m

    for size in range(1, len(mechs) + 1):
        for sub in it.combinations(mechs, size):
            if not variant([fn for _, fn in sub]).accepts(word, start):
                return "+".join(k for k, _ in sub)
    return None


def run_case(c):
    from collections import Counter
    from fandango import Fandango
    from fandango.language.grammar import ParsingMode
    from vf.gen import specgen, inputs
    from vf.monitors import steps
    from vf.ref import treeval
    from vf.ref.grammar_model import RefGrammar, from_fandango
    from vf.trees import pretty, leaves

    rng = random.Random(c["seed"])
    stats = Counter()
    violations = []
    distinct = set()
    if c["kind"] == "gen":
        prof = dict(PROFILES)[c["profile"]]
        grng = random.Random(c["gseed"])
        if prof is None:
            rules = specgen.bitstruct_grammar(grng)
            model = RefGrammar(specgen.model_rules(rules))
            feats = specgen.syntactic_features(rules) | {"bitstruct"}
        else:
            rules, feats, model = specgen.random_grammar(grng, specgen.Profile(**prof))
        text = specgen.to_spec(rules)
        f = Fandango(text, use_stdlib=False)
        names = list(rules)
    else:
        from vf.gen import harvest

        f, text = harvest.try_load(c["file"])
        if f is None:
            return {"status": "ok", "stats": {"spec_unloadable": 1}, "nontrivial": False}
        model = from_fandango(f.grammar).restrict("<start>")
        feats = model.features()
        names = ["<start>"]
    binary = model.binary
    # ------------------------------------------------------------ (b) completeness over enumerated words
    if c["kind"] == "gen":
        for st in names[:3]:
            ws = model.words(st, max_len=8 if not binary else 6, cap=400)
            if st != "<start>":
                rng.shuffle(ws)
                ws = ws[:40]
            for w in ws:
                inp = inputs.to_input(w, binary)
                if inp is None:
                    continue
                steps.reset(budget=150000)
                try:
                    t = f.grammar.parse(inp, st)
                except steps.StepBudgetExceeded:
                    stats["inputs_step_budget"] += 1
                    continue
                except Exception as e:
                    t = None
                    stats["parse_raised:" + type(e).__name__] += 1
                stats["words_parsed"] += 1
                if len(inp) >= 2:
                    distinct.add((st, repr(inp)))
                if t is None:
                    mech = classify(model, w, st)
                    violations.append({"what": f"word {inp!r} of L({st}) (reference enumerator) is rejected by grammar.parse",
                                       "mech": mech, "word": repr(inp), "start": st})
                    continue
                seq = treeval.leaf_seq(t)
                ser = treeval.to_bytes(seq) if binary else treeval.to_str(seq)
                if ser != inp:
                    violations.append({"what": f"word {inp!r} of L({st}) parses to a tree serialising as {ser!r}", "mech": None})
    # ------------------------------------------------------------ (a) generate -> serialise as the CLI does -> Fandango.parse
    has_computed = "computed-repetition" in feats
    trees = []
    random.seed(c["seed"])
    steps.reset()
    if not has_computed:
        for budget in (3, 10, 40, 100):
            for _ in range(4 if c["kind"] == "gen" else 2):
                try:
                    trees.append(("fuzz", f.grammar.fuzz("<start>", max_nodes=budget)))
                except Exception as e:
                    stats["fuzz_raised:" + type(e).__name__] += 1
    steps.reset()
    if c["kind"] == "harvest" or rng.random() < 0.3:
        try:
            sols = f.fuzz(desired_solutions=8, max_generations=3, population_size=12, random_seed=c["seed"] & 0xFFFF)
        except Exception as e:
            sols = []
            stats["search_raised:" + type(e).__name__] += 1
        trees += [("solution", t) for t in sols]
    file_binary = f.grammar.contains_bits(start="<start>") or f.grammar.contains_bytes(start="<start>")
    for origin, t in trees:
        try:
            out = t.to_bytes() if file_binary else t.to_string()
        except Exception as e:
            stats["serialise_raised:" + type(e).__name__] += 1
            continue
        if len(out) > 300:
            stats["roundtrip_skipped_long"] += 1
            continue
        steps.reset(budget=400000)
        try:
            if origin == "solution":
                parsed = list(itertools.islice(f.parse(out), 40))
            else:
                # a plain-fuzzed tree need not satisfy the constraints: the grammar-level parser is its round trip
                parsed = list(itertools.islice(f.grammar.parse_forest(out, "<start>"), 40))
        except steps.StepBudgetExceeded:
            stats["inputs_step_budget"] += 1
            continue
        except Exception as e:
            parsed = []
            stats["api_parse_raised:" + type(e).__name__] += 1
            if "Missing converter" in str(e):
                # the spec defines a generator without the inverse needed for parsing: a documented
                # requirement on the spec, not a parser failure
                stats["roundtrip_spec_lacks_converter"] += 1
                continue
        stats["roundtrips"] += 1
        stats["roundtrips:" + origin] += 1
        if len(leaves(t)) >= 2:
            distinct.add(("rt", repr(out)))
        ok = False
        for p in parsed:
            try:
                back = p.to_bytes() if file_binary else p.to_string()
            except Exception:
                continue
            if back == out:
                ok = True
                break
        if not ok:
            word = inputs.from_input(out, model.binary) if isinstance(out, bytes) == model.binary else None
            mech = None
            if word is not None:
                if not model.accepts(word, "<start>"):
                    # the generated tree's own serialisation is outside the reference language:
                    # that is C01/C09 territory (bad tree or bad serialisation), not the parser's
                    stats["roundtrip_outside_reference_language"] += 1
                    continue
                else:
                    mech = classify(model, word, "<start>")
                    if mech is None and c["kind"] == "harvest" and any(e[0] == "regex" for e in model.all_exprs()):
                        # harvested grammars are not known to be in the stated class (regex terminals that
                        # cannot split ambiguously); reported separately, not as a violation
                        stats["harvest_roundtrip_failures_unattributed"] += 1
                        continue
            # a regex terminal instantiated to '' by exrex for \D/\S (C01's known finding) also breaks the round trip
            from vf import findings
            probs = model.check_tree(t, "<start>")
            if probs:
                m2 = {findings.c01_invalid_tree(model, p) for p in probs}
                if len(m2) == 1 and None not in m2:
                    mech = m2.pop()
            violations.append({"what": f"{origin} tree serialised as {out!r} is not parsed back by Fandango.parse "
                                       f"({len(parsed)} trees yielded, none with the same serialisation)",
                               "mech": mech, "tree": pretty(t)[:400]})
    stats["evaluations"] = stats["words_parsed"] + stats["roundtrips"]
    for ft in feats:
        stats["feat:" + ft] = 1
    res = {"status": "violation" if violations else "ok", "violations": violations[:8], "stats": dict(stats),
           "nontrivial": bool(distinct), "distinct_keys": [[c["key"], a, b] for a, b in sorted(distinct)]}
    if hash(c["key"]) % 30 == 0:
        res["sample"] = {"spec": text[:1500], "words_parsed": stats["words_parsed"], "roundtrips": stats["roundtrips"]}
    return res
