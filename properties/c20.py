"""C20 -- a protocol run is always a valid, correctly attributed interaction."""
import random

ID = "C20"
LEVEL = "fault_enumeration"
RULE = ("cases: protocol spec template (request/response with id correlation, two external parties answering concurrently, alternative response types in a "
        "bounded loop, binary messages) x scripted peer behaviour per step (valid reply, wrong message type, constraint-violating value, truncated message, "
        "silence, unsolicited extra message) x fragmentation of the peer's data (1-3 symbols per receive() call, injected delays, several peer threads) x seed. "
        "Everything runs in one process; the spec's parties forward to a harness-owned peer. Event log under one lock: transmit / add_receive / "
        "clear_by_party of the real FandangoIO. Oracles over log + yielded interaction tree: (1) every prefix of the message sequence is a prefix of an "
        "interaction (message automaton + derivation checker per message); (2) fuzzer messages in the tree equal the transmitted ones in order, remote "
        "messages are attributed to the party that delivered them; (3) per external channel: delivered = consumed (in order, no gaps or duplicates) + still "
        "buffered; (4) messages sent by Fandango satisfy the constraints; (5) a misbehaving remote message never appears in the yielded interaction. "
        "Non-trivial: >= 1 message in each direction; distinct by (template, peer script, fragmentation seed).")
TIMEOUTS = {"quick": (60, 400), "thorough": (120, 3000)}
MIN = {"quick": {"cases": 200, "nontrivial": 90, "observed": {"runs": 200, "messages_checked": 500, "fault_runs": 80, "distinct_fault_scripts": 5, "fragments_delivered": 2000}},
       "thorough": {"cases": 1500, "nontrivial": 1200, "observed": {"runs": 1500}}}
ASSUMPTIONS = ["the peer is scripted by the harness and runs in threads of the same process (as tests/test_msg_exchange.py does)",
               "wall-clock timeouts of the strategy are shortened through its public attribute; a run ended by the harness watchdog is inconclusive"]

PARTIES_1 = '''
class Fuzzer(FandangoParty):
    def __init__(self):
        super().__init__(connection_mode=ConnectionMode.OPEN)
    def send(self, message, recipient):
        vf_bridge.on_send(self, message, recipient)
    def start(self):
        pass
    def stop(self):
        pass

class Extern(FandangoParty):
    def __init__(self):
        super().__init__(connection_mode=ConnectionMode.EXTERNAL)
    def start(self):
        pass
    def stop(self):
        pass
'''
PARTIES_2 = PARTIES_1.replace("class Extern(", "class ExtA(") + '''
class ExtB(FandangoParty):
    def __init__(self):
        super().__init__(connection_mode=ConnectionMode.EXTERNAL)
    def start(self):
        pass
    def stop(self):
        pass
'''
DIG = "<digit> ::= '0'|'1'|'2'|'3'|'4'|'5'|'6'|'7'|'8'|'9'\n"
TEMPLATES = {
    "reqresp": {
        "spec": "import vf_bridge\n<start> ::= <ex>{2}\n<ex> ::= <Fuzzer:Extern:req> <Extern:Fuzzer:resp>\n<req> ::= 'REQ ' <id> '\\n'\n"
                "<resp> ::= 'OK ' <id> ' s' <serial> '\\n'\n<id> ::= <digit>{3}\n<serial> ::= <digit>{4}\n" + DIG +
                "where forall <e> in <ex>: str(<e>.<resp>.<id>) == str(<e>.<req>.<id>)\nwhere int(<req>.<id>) % 2 == 0\n" + PARTIES_1,
        "externals": ["Extern"], "expected_msgs": 4,
    },
    "two-ext": {
        "spec": "import vf_bridge\n<start> ::= <ex>{2}\n<ex> ::= <Fuzzer:req> <ExtA:Fuzzer:ra> <ExtB:Fuzzer:rb>\n<req> ::= 'REQ ' <id> '\\n'\n"
                "<ra> ::= 'A ' <id> ' s' <serial> '\\n'\n<rb> ::= 'B ' <id> ' s' <serial> '\\n'\n<id> ::= <digit>{3}\n<serial> ::= <digit>{4}\n" + DIG +
                "where forall <e> in <ex>: str(<e>.<ra>.<id>) == str(<e>.<req>.<id>)\nwhere forall <e> in <ex>: str(<e>.<rb>.<id>) == str(<e>.<req>.<id>)\n" + PARTIES_2,
        "externals": ["ExtA", "ExtB"], "expected_msgs": 6,
    },
    "alt-loop": {
        "spec": "import vf_bridge\n<start> ::= <hello> <ex>{1,3} <bye>\n<hello> ::= <Fuzzer:Extern:hi>\n<ex> ::= <Fuzzer:Extern:req> (<Extern:Fuzzer:ok> | <Extern:Fuzzer:err>)\n"
                "<bye> ::= <Fuzzer:Extern:fin>\n<hi> ::= 'HI\\n'\n<fin> ::= 'FIN\\n'\n<req> ::= 'REQ ' <id> '\\n'\n<ok> ::= 'OK ' <id> ' s' <serial> '\\n'\n"
                "<err> ::= 'ERR ' <id> ' s' <serial> '\\n'\n<id> ::= <digit>{3}\n<serial> ::= <digit>{4}\n" + DIG +
                "where forall <e> in <ex>: str(<e>..<id>) == str(<e>.<req>.<id>)\n" + PARTIES_1,
        "externals": ["Extern"], "expected_msgs": None,
    },
    "binary": {
        "spec": "import vf_bridge\n<start> ::= <ex>{2}\n<ex> ::= <Fuzzer:Extern:breq> <Extern:Fuzzer:bresp>\n<breq> ::= b'\\x01' <bid> b'\\xff'\n"
                "<bresp> ::= b'\\x02' <bid> <bserial> b'\\xfe'\n<bid> ::= rb'[\\x10-\\x7f]{2}'\n<bserial> ::= rb'[\\x80-\\xf0]{2}'\n"
                "where forall <e> in <ex>: bytes(<e>.<bresp>.<bid>) == bytes(<e>.<breq>.<bid>)\n" + PARTIES_1,
        "externals": ["Extern"], "expected_msgs": 4,
    },
    # two messages of one sender arriving back to back, the first of a type whose parser could still continue after a
    # complete parse (one alternative is a proper prefix of the other)
    "coalesce": {
        "spec": "import vf_bridge\n<start> ::= <ex>{2}\n<ex> ::= <Fuzzer:Extern:req> <Extern:Fuzzer:st> <Extern:Fuzzer:note>\n<req> ::= 'REQ ' <id> '\\n'\n"
                "<st> ::= 'OK ' <id> | 'OK ' <id> ' more\\n'\n<note> ::= 'N' <serial> '\\n'\n<id> ::= <digit>{3}\n<serial> ::= <digit>{4}\n" + DIG +
                "where forall <e> in <ex>: str(<e>.<st>.<id>) == str(<e>.<req>.<id>)\n" + PARTIES_1,
        "externals": ["Extern"], "expected_msgs": 6,
    },
    # a message fandango sends AFTER a remote one has to echo it: the constraint can only be met by changing fandango's own,
    # not yet sent message - the recorded remote message is history
    "echo-ack": {
        "spec": "import vf_bridge\n<start> ::= <ex>{2}\n<ex> ::= <Fuzzer:Extern:req> <Extern:Fuzzer:seq> <Fuzzer:Extern:ack>\n<req> ::= 'REQ ' <id> '\\n'\n"
                "<seq> ::= 'SEQ ' <num> '\\n'\n<ack> ::= 'ACK ' <num> '\\n'\n<id> ::= <digit>{3}\n<num> ::= <digit>{2}\n" + DIG +
                "where forall <e> in <ex>: str(<e>.<seq>.<num>) == str(<e>.<ack>.<num>)\n" + PARTIES_1,
        "externals": ["Extern"], "expected_msgs": 6,
    },
}
BEHAVIOURS = ["valid", "valid", "valid", "wrong-type", "bad-value", "truncated", "silence", "extra"]


def cases(tier, seed):
    rng = random.Random(20000 + seed)
    n = 320 if tier == "quick" else 4000
    names = list(TEMPLATES)
    out = []
    for i in range(n):
        t = names[i % len(names)]
        script = [rng.choice(BEHAVIOURS) for _ in range(8)]
        if (i // len(names)) % 3 == 0:      # every template gets all-valid peers in a third of its cases
            script = ["valid"] * 8
        out.append({"key": f"{t}-{i}", "t": t, "script": script, "seed": rng.randrange(1 << 30), "maxdelay": rng.choice([0.0, 0.003, 0.02])})
    return out


class Monitor:
    """thread-safe event log; one global sequence number taken under the monitor's lock around the real call"""
    def __init__(self):
        import threading
        self.lock = threading.RLock()
        self.events = []

    def log(self, *ev):
        with self.lock:
            self.events.append((len(self.events),) + ev)


MON = Monitor()
installed = False


def setup():
    global installed
    import sys
    import types
    from vf import hooks
    from fandango.io import FandangoIO

    if installed:
        return
    installed = True
    bridge = types.ModuleType("vf_bridge")
    bridge.on_send = lambda party, message, recipient: None
    sys.modules["vf_bridge"] = bridge

    def mk_add(orig):
        def add_receive(self, sender, receiver, message):
            with MON.lock:
                r = orig(self, sender, receiver, message)
                MON.log("deliver", sender, receiver, message)
            return r
        return add_receive

    def mk_clear(orig):
        def clear_by_party(self, party_name, to_idx):
            with MON.lock:
                before = list(self.receive)
                r = orig(self, party_name, to_idx)
                after = list(self.receive)
                # what was removed, per sending party (content and order; independent of how the removal is implemented):
                # the remaining fragments of a party must be a suffix of what it had buffered
                rem = []
                anomalies = []
                parties_ = []
                for e in before:
                    if e[0] not in parties_:
                        parties_.append(e[0])
                for p_ in parties_:
                    bp = [e for e in before if e[0] == p_]
                    ap = [e for e in after if e[0] == p_]
                    if len(ap) <= len(bp) and bp[len(bp) - len(ap):] == ap:
                        gone = bp[:len(bp) - len(ap)]
                    else:
                        gone = bp
                        anomalies.append(f"the fragments of {p_} left in the buffer are not a suffix of what was buffered")
                    if p_ != party_name and gone:
                        anomalies.append(f"clear_by_party({party_name}) removed {len(gone)} fragments delivered by {p_}")
                    if p_ == party_name:
                        rem = gone
                if [e for e in after if e[0] not in parties_]:
                    anomalies.append("entries appeared in the buffer during clear_by_party")
                for a_ in anomalies:
                    MON.log("anomaly", a_)
                MON.log("consume", party_name, to_idx, rem)
            return r
        return clear_by_party

    def mk_tx(orig):
        def transmit(self, sender, recipient, message):
            with MON.lock:
                try:
                    raw = message.to_bytes() if message.should_be_serialized_to_bytes() else message.to_string()
                except Exception:
                    raw = str(message)
                MON.log("transmit", sender, recipient, raw)
            return orig(self, sender, recipient, message)
        return transmit

    def mk_reset(orig):
        def reset_parties(self):
            with MON.lock:
                MON.log("reset", list(self.receive))
                return orig(self)
        return reset_parties

    hooks.wrap_attr(FandangoIO, "add_receive", mk_add)
    hooks.wrap_attr(FandangoIO, "clear_by_party", mk_clear)
    hooks.wrap_attr(FandangoIO, "transmit", mk_tx)
    hooks.wrap_attr(FandangoIO, "reset_parties", mk_reset)


def run_case(c):
    import sys
    import threading
    import time
    from collections import Counter
    from fandango import Fandango
    from fandango.language.grammar import FuzzingMode
    from vf.ref import msg_automaton as ma
    from vf.ref.grammar_model import from_fandango
    from vf.trees import pretty
    from vf import hooks

    rng = random.Random(c["seed"])
    T = TEMPLATES[c["t"]]
    stats = Counter()
    violations = []
    MON.events.clear()
    serial = [1000 + rng.randrange(100)]
    script = list(c["script"])
    step = [0]
    faults = []          # (step, behaviour, what was delivered)
    threads = []
    binary = c["t"] == "binary"
    stop_flag = [False]

    def deliver(party, sender, data, kind):
        whole = rng.random() < 0.3       # the peer's reply arrives as one chunk (several messages coalesced)

        def run():
            i = 0
            while i < len(data) and not stop_flag[0]:
                k = rng.randint(1, 3) if not whole else len(data)
                frag = data[i:i + k]
                i += k
                if c["maxdelay"]:
                    time.sleep(rng.random() * c["maxdelay"])
                try:
                    party.receive(frag, sender)
                    stats["fragments_delivered"] += 1
                except Exception as e:
                    MON.log("peer-error", sender, type(e).__name__)
                    return
        th = threading.Thread(target=run, daemon=True)
        threads.append(th)
        th.start()

    def next_serial():
        serial[0] += 1
        return serial[0]

    def reply_for(sender_party, text):
        """the peer's reaction to a message sent by the fuzzer"""
        beh = script[step[0] % len(script)]
        step[0] += 1
        if binary:
            if not (isinstance(text, bytes) and len(text) == 4 and text[0] == 1):
                return
            bid = text[1:3]
            ser = bytes([0x80 + rng.randrange(0x70), 0x80 + rng.randrange(0x70)])
            good = b"\x02" + bid + ser + b"\xfe"
            variants = {"valid": good, "wrong-type": b"\x07" + bid + ser + b"\xfe", "bad-value": b"\x02" + bytes([bid[0] ^ 1, bid[1]]) + ser + b"\xfe",
                        "truncated": good[:-2], "silence": b"", "extra": good + good}
            data = variants[beh]
            if beh != "valid":
                faults.append((step[0], beh, data))
            if data:
                deliver(sender_party, "Extern", data, beh)
            return
        if not isinstance(text, str):
            text = str(text)
        if not text.startswith("REQ "):
            return   # HI / FIN need no answer
        ident = text.split()[1]
        for ext in T["externals"]:
            tag = {"Extern": "OK", "ExtA": "A", "ExtB": "B"}[ext]
            if c["t"] == "alt-loop" and rng.random() < 0.4:
                tag = "ERR"
            s = next_serial()
            good = f"{tag} {ident} s{s:04d}\n"
            if c["t"] == "coalesce":
                good = f"OK {ident}" + (" more\n" if rng.random() < 0.4 else "") + f"N{s:04d}\n"
            if c["t"] == "echo-ack":
                good = f"SEQ {rng.randrange(100):02d}\n"
                tag = "SEQ"
            b = beh if ext == T["externals"][0] else "valid"
            if b == "valid":
                data = good
            elif b == "extra" and c["t"] == "coalesce":
                data = good + f"N{next_serial():04d}\n"
            elif b == "wrong-type":
                data = f"NOPE {ident} s{s:04d}\n"
            elif b == "bad-value":
                data = f"{tag} {(int(ident) + 1) % 1000:03d} s{s:04d}\n"
            elif b == "truncated":
                data = good[:-3]
            elif b == "silence":
                data = ""
            else:
                data = good + f"{tag} {ident} s{next_serial():04d}\n"
            if b != "valid":
                faults.append((step[0], b, data))
            if data:
                deliver(sender_party, ext, data, b)

    def on_send(party, message, recipient):
        try:
            raw = message.to_bytes() if message.should_be_serialized_to_bytes() else message.to_string()
        except Exception:
            raw = str(message)
        MON.log("party-send", party.party_name, recipient, raw)
        reply_for(party, raw)

    sys.modules["vf_bridge"].on_send = on_send
    before_pe = hooks.COUNTS["print_exception"]
    result = None
    raised = None
    t0 = time.time()
    try:
        f = Fandango(T["spec"], use_stdlib=False)
        f.init_population(population_size=4, random_seed=c["seed"] & 0xFFFF)
        f.fandango.remote_response_timeout = 1.5
        for t in f.generate_solutions(mode=FuzzingMode.IO):
            result = t
            break
    except Exception as e:
        raised = f"{type(e).__name__}: {str(e)[:120]}"
    finally:
        stop_flag[0] = True
        sys.modules["vf_bridge"].on_send = lambda *a, **k: None
    for th in threads:
        th.join(timeout=1.0)
    stats["runs"] += 1
    stats["run_seconds_x10"] = int((time.time() - t0) * 10)
    if faults:
        stats["fault_runs"] += 1
    events = list(MON.events)
    swallowed = hooks.COUNTS["print_exception"] - before_pe
    # ------------------------------------------------------------------ oracles
    g = f.grammar if "f" in dir() else None
    msgs = []
    if result is not None:
        for m in result.protocol_msgs():
            try:
                raw = m.msg.to_bytes() if m.msg.should_be_serialized_to_bytes() else m.msg.to_string()
            except Exception:
                raw = str(m.msg)
            msgs.append((m.sender, m.recipient, m.msg.symbol.name(), raw, m.msg))
    stats["messages_checked"] += len(msgs)
    if g is not None:
        # log-only oracle (also when no interaction was yielded): every clear_by_party must consume exactly one whole
        # message of that sender -- no more (next message eaten) and no less (a tail left in the buffer)
        try:
            model_l = from_fandango(g)
            by_sender = {}
            for pnt in g.get_protocol_messages():
                by_sender.setdefault(pnt.sender, set()).add(pnt.non_terminal.name() if hasattr(pnt, "non_terminal") else pnt.symbol.name())
        except Exception:
            model_l, by_sender = None, {}
        if model_l is not None:
            from vf.gen import inputs as _inp
            for e in events:
                if e[1] != "consume" or not e[4]:
                    continue
                chunk = (b"" if binary else "").join(fr for (_s, _r, fr) in e[4])
                stats["consume_events_checked"] += 1
                names = by_sender.get(e[2], set())
                word = _inp.from_input(chunk, model_l.binary) if isinstance(chunk, bytes) == model_l.binary else None
                if word is None or not any(model_l.accepts(word, n_) for n_ in names):
                    violations.append({"what": f"clear_by_party({e[2]}, {e[3]}) consumed {chunk!r}, which is not exactly one message of {e[2]} ({sorted(names)})", "mech": None})
                    break
    if g is not None and result is not None:
        # (1) prefix validity + derivations
        model = from_fandango(g)
        r = ma.from_grammar(g)
        rl = r
        for i, (snd, rcp, name, raw, node) in enumerate(msgs):
            a = (snd, rcp, name)
            if a not in ma.first(r):
                # attribution: the sequence is a prefix for the (deliberately wrong) automaton in which an entered
                # repetition iteration may be abandoned mid-way -- the forecaster's known defect (C19) made Fandango send it
                mech = None
                ok_lenient = True
                rr = rl
                for (s2, r2, n2, _raw, _n) in msgs[:i + 1]:
                    if (s2, r2, n2) not in ma.first(rr):
                        ok_lenient = False
                        break
                    rr = ma.deriv(rr, (s2, r2, n2), lenient=True)
                if ok_lenient and snd == "Fuzzer":
                    mech = "repetition-iteration-abandoned-midway"
                violations.append({"what": f"message #{i} {a} {raw!r} of the yielded interaction cannot follow {[m[2] for m in msgs[:i]]} in the spec", "mech": mech})
                break
            r = ma.deriv(r, a)
            probs = model.check_tree(node, name)
            if probs:
                violations.append({"what": f"message #{i} {raw!r} is not a derivation of {name}: {probs[0][1]}", "mech": None})
        # (2) attribution of fuzzer messages: equal, in order, to what was transmitted
        tx = [(e[2], e[3], e[4]) for e in events if e[1] == "transmit"]
        fz = [(m[0], m[1], m[3]) for m in msgs if m[0] == "Fuzzer"]
        if fz != tx[:len(fz)]:
            violations.append({"what": f"fuzzer messages in the yielded interaction {fz} differ from the transmitted ones {tx}", "mech": None})
        # every transmitted message reaches the party exactly once
        ps = [(e[2], e[3], e[4]) for e in events if e[1] == "party-send"]
        if ps != tx:
            violations.append({"what": f"transmit events {tx} and the messages the sending party's send() received {ps} differ (exactly-once delivery)", "mech": None})
        # (3) conservation per external channel
        for ext in T["externals"]:
            delivered = [e[4] for e in events if e[1] == "deliver" and e[2] == ext]
            joined = (b"" if binary else "").join(delivered) if delivered else (b"" if binary else "")
            consumed_calls = [e[4] for e in events if e[1] == "consume" and e[2] == ext]
            consumed = (b"" if binary else "")
            for rem in consumed_calls:
                for (s_, r_, frag) in rem:
                    consumed += frag
            if not joined.startswith(consumed):
                violations.append({"what": f"channel {ext}: consumed data {consumed!r} is not a prefix (in order, no gaps/duplicates) of the delivered stream {joined!r}", "mech": None})
            in_tree = (b"" if binary else "").join(m[3] for m in msgs if m[0] == ext)
            if not joined.startswith(in_tree):
                violations.append({"what": f"channel {ext}: the messages attributed to {ext} in the interaction {in_tree!r} are not a prefix of what {ext} delivered {joined!r}", "mech": None})
            if in_tree != consumed[:len(in_tree)]:
                violations.append({"what": f"channel {ext}: interaction shows {in_tree!r} but {consumed!r} was consumed from the buffer", "mech": None})
        for e in events:
            if e[1] == "anomaly":
                violations.append({"what": "receive buffer: " + e[2], "mech": None})
        # (4) constraints on sent messages and (5) no misbehaving remote message in the interaction
        ids = {}
        k = 0
        for i, (snd, rcp, name, raw, node) in enumerate(msgs):
            if name in ("<req>", "<breq>"):
                cur = raw.split()[1] if not binary else raw[1:3]
                ids["cur"] = cur
                if c["t"] == "reqresp" and int(cur) % 2 != 0:
                    violations.append({"what": f"Fandango sent {raw!r}, violating `int(<req>.<id>) % 2 == 0`", "mech": None})
            elif name in ("<resp>", "<ra>", "<rb>", "<ok>", "<err>", "<bresp>"):
                got = raw.split()[1] if not binary else raw[1:3]
                if "cur" in ids and got != ids["cur"]:
                    violations.append({"what": f"remote message {raw!r} with id {got!r} (request id {ids['cur']!r}) violates the correlation constraint but is part of the yielded interaction", "mech": None})
        for (st, beh, data) in faults:
            if beh in ("wrong-type",) and data:
                for m in msgs:
                    if m[3] == data:
                        violations.append({"what": f"a remote message of no expected type {data!r} appears in the yielded interaction", "mech": None})
        if faults and T["expected_msgs"] and len(msgs) == T["expected_msgs"] and all(b in ("extra",) for _, b, _ in faults) is False:
            first_fault = min(st for st, b, _ in faults if b != "extra") if any(b != "extra" for _, b, _ in faults) else None
            if first_fault is not None and first_fault <= (T["expected_msgs"] // 2) and swallowed == 0 and raised is None:
                violations.append({"what": f"the peer misbehaved ({faults[:2]}) but the run yielded a full interaction without any error", "mech": None})
    stats["evaluations"] = 1
    stats["swallowed_errors"] = swallowed
    for _, b, _ in faults:
        stats["fault:" + b] += 1
    nontrivial = any(m[0] == "Fuzzer" for m in msgs) and any(m[0] != "Fuzzer" for m in msgs)
    fsig = tuple(b for _, b, _ in faults[:3])
    res = {"status": "violation" if violations else "ok", "violations": violations[:4], "stats": dict(stats),
           "nontrivial": nontrivial, "distinct_key": c["key"], "fault_sig": list(fsig)}
    if result is None and raised is None:
        res["status"] = "inconclusive" if not violations else "violation"
        res["reason"] = "no interaction yielded"
    if hash(c["key"]) % 12 == 0 or violations:
        res["sample"] = {"template": c["t"], "script": script[:4], "messages": [(m[0], m[1], m[2], repr(m[3])) for m in msgs], "faults": [(s, b, repr(d)) for s, b, d in faults[:3]],
                         "raised": raised, "events": len(events), "swallowed_errors": swallowed}
    return res


def EXTRA_COVERAGE(stats, results, tier):
    sigs = {tuple(r.get("fault_sig") or ()) for r in results if r.get("fault_sig")}
    return {"distinct_fault_sequences_observed": len(sigs)}


def fold(results, tier, seed):
    sigs = {tuple(r.get("fault_sig") or ()) for r in results if r.get("fault_sig")}
    return {"stats": {"distinct_fault_scripts": len(sigs)}}
