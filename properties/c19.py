"""C19 -- protocol forecasting offers exactly the grammar's continuations."""
import copy
import random

ID = "C19"
LEVEL = "exploration"
RULE = ("cases: generated protocol grammar (alternatives, options, * + {n} {n,m} {n,}, nesting through non-message nonterminals, messages reused in several "
        "places, 2-4 parties, recipients present/absent, slices to subsets of parties) + tests/resources/forecaster.fan. Exhaustive walk of the reachable "
        "message histories to a depth bound (fan-out sampled beyond a cap): from the empty history, for every predicted option and EVERY mounting path the "
        "history tree is extended exactly as the search does (collapse, append(path[1:-1]), fuzz the message) and at every node the options and "
        "'complete' are compared with the message automaton (Brzozowski derivatives of the grammar's node objects after init_io / slice_parties). Every "
        "repetition is additionally followed along a single-branch chain past its upper bound (open-ended ones past a lowered process-wide cap). "
        "Non-trivial: history length >= 1; distinct by (grammar, history).")
TIMEOUTS = {"quick": (90, 420), "thorough": (300, 3000)}
MIN = {"quick": {"cases": 200, "nontrivial": 4000, "observed": {"histories": 4000, "complete_histories": 700, "chain_histories": 700}},
       "thorough": {"cases": 1200, "nontrivial": 80000, "observed": {"histories": 80000}}}
ASSUMPTIONS = ["recursive protocol grammars are not generated (the automaton is built by finite expansion)",
               "grammars with a nullable body under a repetition are not generated (C06 divergence)"]


def cases(tier, seed):
    rng = random.Random(19000 + seed)
    n = 320 if tier == "quick" else 4000
    out = [{"key": "forecaster.fan", "kind": "file", "depth": 6 if tier == "quick" else 8, "seed": 1}]
    for i in range(n):
        out.append({"key": f"gen-{i}", "kind": "gen", "gseed": rng.randrange(1 << 30), "seed": rng.randrange(1 << 30),
                    "depth": 6 if tier == "quick" else 8, "slice": i % 4 == 3, "cap": rng.choice([3, 4])})
    return out


def setup():
    from vf.monitors import steps

    steps.install()


def opts_of(res):
    return {(p, pk.node.recipient, nt.name()) for p, fnt in res.parties_to_packets.items() for nt, pk in fnt.nt_to_packet.items()}


def run_case(c):
    from collections import Counter
    from fandango import Fandango
    from fandango.io.navigation.packetforecaster import PacketForecaster
    from fandango.language.tree import DerivationTree
    from fandango.language.symbols import NonTerminal
    from fandango.language.parse.parse import parse as fparse
    import fandango.language.grammar.nodes as fnodes
    from vf.ref import msg_automaton as ma
    from vf.gen import protogen
    from vf.bootstrap import repo_root
    from vf.monitors import steps
    import os

    rng = random.Random(c["seed"])
    stats = Counter()
    violations = []
    if c["kind"] == "file":
        text = open(os.path.join(repo_root(), "tests/resources/forecaster.fan")).read()
        parties = None
    else:
        text, allp, msgs = protogen.protocol_spec(random.Random(c["gseed"]))
        parties = None
        if c["slice"]:
            k = rng.randint(1, len(allp))
            parties = rng.sample(allp, k)
    import io
    import contextlib
    try:
        with contextlib.redirect_stderr(io.StringIO()):
            g, cons = fparse(text, use_stdlib=False, parties=parties)
    except Exception as e:
        return {"status": "ok", "stats": {"spec_rejected": 1, "rejected:" + type(e).__name__: 1}, "nontrivial": False}
    try:
        if c["kind"] == "gen":
            # The reference slices the UNSLICED grammar itself (independent reading of the slicing rule).  Unsliced = read
            # with every party listed (nothing to hide).  parse(parties=P) keeps the messages SENT by P; without a party
            # list, init_io hides the messages exchanged between two parties that fandango does not control.
            import re as _re
            with contextlib.redirect_stderr(io.StringIO()):
                g_full, _ = fparse(text, use_stdlib=False, parties=list(allp))
            if parties is not None:
                R0 = ma.from_grammar(g_full, keep=set(parties), ignore_receivers=True)
            else:
                modes = dict(_re.findall(r"class (\w+)\(FandangoParty\):\n    def __init__\(self\):\n        super\(\).__init__\(connection_mode=ConnectionMode\.(\w+)\)", text))
                R0 = ma.from_grammar(g_full, keep={p_ for p_, m_ in modes.items() if m_ == "OPEN"}, ignore_receivers=False)
            stats["sliced_references_built_from_unsliced_grammar"] += 1
        else:
            R0 = ma.from_grammar(g)
    except RecursionError:
        return {"status": "ok", "stats": {"recursive_grammar_skipped": 1}, "nontrivial": False}
    except KeyError:
        return {"status": "ok", "stats": {"sliced_grammar_without_start": 1}, "nontrivial": False}
    def _letters_of(r_, acc):
        if isinstance(r_, tuple):
            if r_ and r_[0] == "let":
                acc.add(r_[1])
            else:
                for x_ in r_:
                    _letters_of(x_, acc)
        return acc
    all_letters = _letters_of(R0, set())
    old_cap = fnodes.MAX_REPETITIONS
    cap = c.get("cap", 3)
    distinct = 0
    budget = [600 if c["kind"] == "gen" else 3000]
    try:
        fc = PacketForecaster(g)

        def predict(tree):
            steps.reset(budget=400000)
            return fc.predict(tree)

        def extend(pk, mp):
            t2 = g.collapse(mp.tree)
            t2 = copy.deepcopy(t2) if t2 is not None else DerivationTree(NonTerminal("<start>"))
            dummy = DerivationTree(NonTerminal("<hookin>"))
            t2.append(mp.path[1:-1], dummy)
            fp = dummy.parent
            fp.set_children(fp.children[:-1])
            pk.node.fuzz(fp, g, 20)
            return t2

        def check(tree, r, hist, chain=False, letters=()):
            nonlocal distinct
            try:
                res = predict(tree)
            except steps.StepBudgetExceeded:
                stats["predict_step_budget"] += 1
                return None
            except Exception as e:
                violations.append({"what": f"predict() raised {type(e).__name__}: {str(e)[:120]} on the valid history {hist}", "mech": None, "spec": text})
                return None
            stats["histories"] += 1
            if chain:
                stats["chain_histories"] += 1
            if hist:
                distinct += 1
            got, exp = opts_of(res), ma.first(r)
            comp = len(res.complete_trees) != 0
            if got != exp:
                missing, extra = sorted(exp - got, key=repr), sorted(got - exp, key=repr)
                mech = None
                # Several known mechanisms may act at once; EVERY missing and EVERY extra option must be explained:
                # (a) counterfactual: with a higher process-wide cap omitted options appear (and nothing else changes);
                # (b) one forecast entry per (sender, message type): the same type offered to another recipient at the same
                #     point is folded into the first entry -> an omitted option has an offered twin (same sender, same type,
                #     other recipient);
                # (c) a (deliberately wrong) automaton in which an entered repetition iteration may be abandoned mid-way
                #     explains extra options.
                parts = []
                rem_missing = list(missing)
                rem_extra = list(extra)
                if rem_missing:
                    now = fnodes.MAX_REPETITIONS
                    try:
                        fnodes.MAX_REPETITIONS = now + 50
                        fc2 = PacketForecaster(g)
                        got2 = opts_of(fc2.predict(tree))
                    except BaseException:
                        got2 = None
                    finally:
                        fnodes.MAX_REPETITIONS = now
                    if got2 is not None and (got2 - exp) <= (got - exp):
                        by_cap = [m_ for m_ in rem_missing if m_ in got2]
                        if by_cap:
                            parts.append("open-ended-repetition-at-global-cap")
                            rem_missing = [m_ for m_ in rem_missing if m_ not in got2]
                if rem_missing:
                    twins = [m_ for m_ in rem_missing if any(o[0] == m_[0] and o[2] == m_[2] and o[1] != m_[1] for o in got)]
                    if twins:
                        parts.append("same-type-same-sender-recipients-merged")
                        rem_missing = [m_ for m_ in rem_missing if m_ not in twins]
                if rem_extra and letters:
                    rl = R0
                    for a_ in letters:
                        rl = ma.deriv(rl, a_, lenient=True)
                    if set(rem_extra) <= (ma.first(rl) - exp):
                        parts.append("repetition-iteration-abandoned-midway")
                        rem_extra = []
                if rem_extra and letters:
                    # (d) one message type used by several senders in alternative branches: the history is also matched
                    #     against the branch that expects the type from ANOTHER party (the history parser works on message
                    #     types; party annotations of an ambiguous type are taken over from the history). Counterfactual:
                    #     a sender-blind reading of the history - every step may be taken by any offered letter of the same
                    #     message type and recipient - explains exactly these extra options.
                    states = [R0]
                    for a_ in letters:
                        nxt = []
                        for st_ in states:
                            for b_ in ma.first(st_):
                                if b_[2] == a_[2] and b_[1] == a_[1]:      # same type, same recipient, ANY sender
                                    d_ = ma.deriv(st_, b_)
                                    if d_ != ma.EMPTY and d_ not in nxt:
                                        nxt.append(d_)
                        states = nxt[:24]
                    blind = set()
                    for st_ in states:
                        blind |= set(ma.first(st_))
                    shared = any(len({x[0] for x in all_letters if x[2] == e_[2]}) > 1 for e_ in all_letters)
                    if shared and set(rem_extra) <= (blind - exp):
                        parts.append("same-type-other-sender-branch-accepted")
                        rem_extra = []
                if parts and not rem_missing and not rem_extra:
                    mech = "+".join(parts)
                violations.append({"what": f"after history {hist} the forecaster offers {sorted(got, key=repr)} but the grammar allows {sorted(exp, key=repr)} "
                                           f"(missing {missing}, extra {extra}); cap={fnodes.MAX_REPETITIONS}", "mech": mech, "spec": text, "parties": parties})
            if hist and comp != ma.nullable(r):
                mech = None
                if not comp:
                    # counterfactual: with a higher process-wide cap the history is reported complete
                    now = fnodes.MAX_REPETITIONS
                    try:
                        fnodes.MAX_REPETITIONS = now + 50
                        if len(PacketForecaster(g).predict(tree).complete_trees) != 0:
                            mech = "open-ended-repetition-at-global-cap"
                    except BaseException:
                        pass
                    finally:
                        fnodes.MAX_REPETITIONS = now
                if comp and letters:
                    rl = R0
                    for a_ in letters:
                        rl = ma.deriv(rl, a_, lenient=True)
                    if ma.nullable(rl):
                        mech = "repetition-iteration-abandoned-midway"
                violations.append({"what": f"history {hist} is reported {'complete' if comp else 'incomplete'} but the grammar says it is "
                                           f"{'a full interaction' if ma.nullable(r) else 'not a full interaction'}", "mech": mech, "spec": text, "parties": parties})
            if comp:
                stats["complete_histories"] += 1
            return res

        def walk(tree, r, depth, hist, letters=()):
            res = check(tree, r, hist, letters=letters)
            if res is None or depth == 0 or len(violations) > 4:
                return
            options = []
            for party, fnt in res.parties_to_packets.items():
                for nt, pk in fnt.nt_to_packet.items():
                    for mp in pk.paths:
                        options.append((party, nt, pk, mp))
            rng.shuffle(options)
            for party, nt, pk, mp in options:
                if budget[0] <= 0:
                    stats["fanout_sampled"] += 1
                    return
                budget[0] -= 1
                a = (party, pk.node.recipient, nt.name())
                if sum(1 for x in ma.first(r) if x[0] == a[0] and x[2] == a[2]) > 1:
                    # this entry stands for several grammar nodes (other recipients); which mount path belongs to which is
                    # not observable here -- such histories are produced by parsing instead (below)
                    stats["merged_entries_not_walked"] += 1
                    continue
                d = ma.deriv(r, a)
                if d == ma.EMPTY:
                    continue   # already reported as an extra option
                try:
                    t2 = extend(pk, mp)
                except Exception as e:
                    violations.append({"what": f"mounting {a} at path {mp} after history {hist} raised {type(e).__name__}: {str(e)[:100]}", "mech": None, "spec": text})
                    continue
                walk(t2, d, depth - 1, hist + [nt.name()], letters + (a,))

        walk(DerivationTree(NonTerminal("<start>")), R0, c["depth"], [])

        # ---- histories obtained by PARSING message texts in prefix mode: every parse tree carries the party annotations of
        # the alternative it took, so interactions that differ only in who a message was addressed to are told apart
        if c["kind"] == "gen" and parties is None:
            from fandango.language.grammar import ParsingMode
            import itertools

            def text_of(a_):
                return a_[2][1:-1] + "%02d" % rng.randrange(100)

            seqs = [()]
            frontier = [((), R0)]
            for _ in range(3):
                nxt = []
                for letters_, r_ in frontier:
                    for a_ in sorted(ma.first(r_), key=repr):
                        d_ = ma.deriv(r_, a_)
                        if d_ != ma.EMPTY:
                            nxt.append((letters_ + (a_,), d_))
                rng.shuffle(nxt)
                frontier = nxt[:6]
                seqs.extend(l for l, _ in frontier)
            seen_h = set()
            for letters_ in seqs[1:]:
                word = "".join(text_of(a_) for a_ in letters_)
                try:
                    steps.reset(budget=300000)
                    trees = list(itertools.islice(g.parse_forest(word, "<start>", mode=ParsingMode.INCOMPLETE), 12))
                except BaseException as e:
                    if isinstance(e, (KeyboardInterrupt, SystemExit)) or type(e).__name__ == "CaseTimeout":
                        raise
                    stats["parsed_history_parse_failed"] += 1
                    continue
                for t_ in trees:
                    try:
                        h_ = tuple((m_.sender, m_.recipient, m_.msg.symbol.name()) for m_ in t_.protocol_msgs())
                    except Exception:
                        continue
                    if not h_ or h_ in seen_h or "".join(str(m_.msg) for m_ in t_.protocol_msgs()) != word:
                        continue
                    seen_h.add(h_)
                    r_ = R0
                    for a_ in h_:
                        r_ = ma.deriv(r_, a_)
                    if r_ == ma.EMPTY:
                        violations.append({"what": f"prefix-mode parse of {word!r} yields the message history {list(h_)}, which is not a prefix of any interaction of the spec",
                                           "mech": None, "spec": text, "parties": parties})
                        continue
                    stats["parsed_histories"] += 1
                    if len({(x[0], x[2]) for x in h_}) < len(set(h_)) or any(sum(1 for y in msgs if y[0] == x[0] and "<" + y[2] + ">" == x[2]) > 1 for x in h_):
                        stats["parsed_histories_with_shared_message_type"] += 1
                    check(t_, r_, [f"{x[0]}->{x[1]}:{x[2]}" for x in h_], letters=h_)

        # ---- single-branch chains past repetition bounds, with the process-wide cap lowered
        if c["kind"] == "gen" or True:
            g.set_max_repetition(cap)
            fc = PacketForecaster(g)
            tree, r, hist = DerivationTree(NonTerminal("<start>")), R0, []
            letters = ()
            last = None
            for step in range(cap + 6 if c["kind"] == "gen" else 8):
                res = check(tree, r, hist, chain=True, letters=letters)
                if res is None or violations and violations[-1].get("mech") is None and len(violations) > 4:
                    break
                options = []
                for party, fnt in res.parties_to_packets.items():
                    for nt, pk in fnt.nt_to_packet.items():
                        for mp in pk.paths:
                            options.append((party, nt, pk, mp))
                if not options:
                    break
                # prefer repeating the previous message type (drives a repetition past its bound)
                options.sort(key=lambda o: (o[1].name() != last, rng.random()))
                party, nt, pk, mp = options[0]
                a = (party, pk.node.recipient, nt.name())
                if sum(1 for x in ma.first(r) if x[0] == a[0] and x[2] == a[2]) > 1:
                    break
                d = ma.deriv(r, a)
                if d == ma.EMPTY:
                    break
                try:
                    tree = extend(pk, mp)
                except Exception:
                    break
                r, hist, last = d, hist + [nt.name()], nt.name()
                letters = letters + (a,)
    finally:
        fnodes.MAX_REPETITIONS = old_cap
    stats["evaluations"] = stats["histories"]
    res = {"status": "violation" if violations else "ok", "violations": violations[:5], "stats": dict(stats),
           "nontrivial": distinct > 0, "distinct_count": distinct}
    if hash(c["key"]) % 15 == 0 or violations:
        res["sample"] = {"spec": text, "parties": parties, "histories": stats["histories"]}
    return res
