"""C11 -- cached evaluations equal fresh evaluations."""
import random

ID = "C11"
LEVEL = "exploration"
RULE = ("cases: spec without soft constraints (fixed grammars with computed repetitions + random constraints incl. nested quantifiers that rebind "
        "scopes, selectors, raising sub-expressions; harvested specs) x search run, plus targeted histories (evaluate T; edit below T through the public "
        "API; evaluate again; evaluate a structurally equal tree with different repetition grouping - parsed vs fuzzed; evaluate after slicing; constraint objects asked directly twice). Every "
        "evaluation of the real evaluator is shadowed by a brand-new evaluator on constraint objects with emptied caches on a structural copy, and by a third one whose memos never store; compared: "
        "fitness (exact float), verdict, failing parts as multiset of (path, symbol, cause). Non-trivial: >= 1 compared evaluation served from a cache; "
        "distinct by (spec, seed).")
TIMEOUTS = {"quick": (60, 300), "thorough": (240, 2400)}
MIN = {"quick": {"cases": 60, "nontrivial": 30, "observed": {"shadow_compared": 3000, "shadow_compared_cache_hit": 150, "targeted_histories": 150, "shadow_compared_uncached": 3000, "direct_constraint_histories": 300}},
       "thorough": {"cases": 1500, "nontrivial": 800, "observed": {"shadow_compared": 100000}}}
ASSUMPTIONS = ["suggestions (randomised repairs) are not compared", "specs with soft constraints are excluded (their scores depend on history by design)"]


def cases(tier, seed):
    rng = random.Random(11000 + seed)
    n = 90 if tier == "quick" else 2400
    names = ["kvc", "msg", "two"]
    out = [{"key": f"gen-{names[i % 3]}-{i}", "kind": "gen", "g": names[i % 3], "seed": rng.randrange(1 << 30)} for i in range(n)]
    from vf.gen import harvest

    for j, f in enumerate(harvest.safe_complete_specs()):
        if tier == "quick" and j % 3 != seed % 3:
            continue
        out.append({"key": f"harvest-{f.split('/repo/')[-1]}", "kind": "harvest", "file": f, "seed": rng.randrange(1 << 30)})
    return out


def setup():
    from vf.monitors import shadow

    shadow.install()


def run_case(c):
    import copy
    from collections import Counter
    from fandango import Fandango
    from fandango.constraints.soft import SoftValue
    from fandango.language.tree import DerivationTree
    from fandango.language.symbols import Terminal
    from vf.gen import consgen
    from vf.ref import constraint_sem as cs
    from vf.monitors import shadow
    from vf import hooks
    from properties.c02 import SPECS

    rng = random.Random(c["seed"])
    stats = Counter()
    violations = []
    before = dict(hooks.COUNTS)
    settings = dict(population_size=rng.choice([5, 10, 20]), max_generations=rng.choice([3, 5, 8]),
                    desired_solutions=rng.choice([10, 40]), max_nodes=rng.choice([30, 100]))
    if c["kind"] == "gen":
        text, info, reps = SPECS[c["g"]]
        # 0 = a spec whose only constraints are the repetition bounds of its computed repetitions
        conss = [consgen.rand_constraint(rng, info, depth=rng.choice([0, 1, 2, 2])) for _ in range(rng.choice([0, 1, 1, 2, 3]))]
        if conss and rng.random() < 0.4:
            conss.append(consgen.discriminating(rng, info))
            stats["specs_with_discriminating_quantifier"] += 1
        spec = text + "".join("where " + cs.to_text(x) + "\n" for x in conss)
        lazy = rng.random() < 0.3
        def build():
            f_ = Fandango(spec, use_stdlib=False, lazy=lazy)
            return f_.grammar, list(f_.constraints)
        try:
            f = Fandango(spec, use_stdlib=False, lazy=lazy)
            shadow.begin_run(build, every=1)
        except Exception as e:
            return {"status": "ok", "stats": {"spec_rejected": 1}, "nontrivial": False}
    else:
        from vf.gen import harvest

        f, text = harvest.try_load(c["file"])
        if f is None:
            return {"status": "ok", "stats": {"spec_unloadable": 1}, "nontrivial": False}
        if any(isinstance(x, SoftValue) for x in f.constraints) or not f.constraints:
            return {"status": "ok", "stats": {"spec_skipped_soft_or_unconstrained": 1}, "nontrivial": False}
        def build():
            f_, _ = harvest.try_load(c["file"])
            return f_.grammar, list(f_.constraints)
        shadow.begin_run(build, every=2)
        spec = c["file"]
    try:
        try:
            sols = f.fuzz(random_seed=c["seed"] & 0xFFFF, **settings)
            stats["runs"] += 1
            stats["solutions"] += len(sols)
        except Exception as e:
            stats["run_raised:" + type(e).__name__] += 1
            sols = []
        # ---- targeted histories on the evaluator of that run
        shadow.STATE["every"] = 1
        shadow.STATE["cap"] = shadow.STATE.get("done", 0) + 200
        ev = f.fandango.evaluator if f.fandango is not None else None
        if ev is not None and type(ev).__name__ == "Evaluator":
            pop = list(f.fandango.population)[:6] + list(sols)[:4]
            for t in pop:
                try:
                    stats["targeted_histories"] += 1
                    list(ev.evaluate_individual(t))                      # (cached)
                    nts = [n for n in t.flatten() if n.symbol.is_non_terminal and not n.read_only]
                    n = rng.choice(nts)
                    kind = rng.choice(["replace-child", "set-children", "slice-then-eval", "reparse", "equal-copy"])
                    if kind == "replace-child":
                        new = f.grammar.fuzz(n.symbol, 8)
                        t2 = t.replace(f.grammar, n, new)
                        list(ev.evaluate_individual(t2))
                        list(ev.evaluate_individual(t))
                    elif kind == "set-children":
                        # in-place edit below T through the public API, then evaluate T again
                        new = f.grammar.fuzz(n.symbol, 8)
                        n.set_children(list(new.children))
                        list(ev.evaluate_individual(t))
                    elif kind == "slice-then-eval":
                        if n.children:
                            n[0:len(n.children)]
                            n[0]
                        list(ev.evaluate_individual(t))
                    elif kind == "reparse":
                        # structurally equal tree with different repetition grouping / tags
                        w = bytes(t) if t.should_be_serialized_to_bytes() else str(t)
                        p = f.grammar.parse(w)
                        if p is not None:
                            f.grammar.populate_sources(p)
                            list(ev.evaluate_individual(p))
                            if p == t:
                                stats["reparsed_equal_trees"] += 1
                    else:
                        cp = copy.deepcopy(t)
                        list(ev.evaluate_individual(cp))
                except Exception as e:
                    stats["history_raised:" + type(e).__name__] += 1
            # ---- constraint objects asked directly (the route repairs and Fandango.parse take, past the evaluator's own
            # memo): first answer, the answer served from the constraint's memo, and brand-new objects must coincide
            def fsig(fit):
                return (fit.success, fit.fitness(), getattr(fit, "solved", None), getattr(fit, "total", None),
                        shadow.failing_signature(fit.failing_trees))
            for t in pop[:6]:
                for con, fresh_con, unc_con in zip(f.constraints, shadow.STATE["shadow_constraints"], shadow.STATE["uncached_constraints"]):
                    if isinstance(con, SoftValue):
                        continue
                    try:
                        st_ = random.getstate()
                        first = fsig(con.fitness(t))
                        again = fsig(con.fitness(t))
                        shadow.clear_caches(fresh_con)
                        fresh = fsig(fresh_con.fitness(copy.deepcopy(t)))
                        shadow.NoStore.lookups = 0
                        try:
                            unc = fsig(unc_con.fitness(copy.deepcopy(t)))
                        except shadow.UncachedBudget:
                            unc = first
                            stats["direct_uncached_abandoned_budget"] += 1
                        random.setstate(st_)
                    except Exception as e:
                        stats["direct_raised:" + type(e).__name__] += 1
                        continue
                    stats["direct_constraint_histories"] += 1
                    def same(x, y):
                        sx, sy = shadow.comparable(x[4], y[4])
                        return x[:4] == y[:4] and sx == sy
                    if not (same(first, again) and same(first, fresh) and unc[:4] == first[:4]):
                        names = ["first answer", "answer served from the memo", "brand-new constraint object", "memoisation switched off"]
                        vals = [first, again, fresh, unc]
                        diff = [f"{n_}: success={v_[0]} fitness={v_[1]} solved/total={v_[2]}/{v_[3]} failing={v_[4][:2]}" for n_, v_ in zip(names, vals)]
                        violations.append({"what": f"constraint `{con.format_as_spec()}` asked directly about one tree answers differently: " + " | ".join(diff),
                                           "mech": None, "tree": str(t)[:200], "spec": spec if c["kind"] == "gen" else c["file"]})
                        break
    finally:
        shadow.end_run()
    for m in shadow.MISMATCHES[:5]:
        violations.append({"what": f"evaluation differs from a fresh evaluator: {m['what']} (served from cache: {m['cache_hit']})",
                           "mech": None, "tree": m["tree"], "spec": spec if c["kind"] == "gen" else c["file"]})
    for k in ("shadow_compared", "shadow_compared_cache_hit", "shadow_compared_uncached", "shadow_uncached_abandoned_budget"):
        stats[k] = hooks.COUNTS[k] - before.get(k, 0)
    for k in hooks.COUNTS:
        if k.startswith("shadow_failed"):
            stats[k] = hooks.COUNTS[k] - before.get(k, 0)
    stats["evaluations"] = stats["shadow_compared"]
    res = {"status": "violation" if violations else "ok", "violations": violations, "stats": dict(stats),
           "nontrivial": stats["shadow_compared_cache_hit"] > 0, "distinct_key": c["key"]}
    if hash(c["key"]) % 25 == 0 or violations:
        res["sample"] = {"spec": spec, "settings": settings, "compared": stats["shadow_compared"], "cache_hits": stats["shadow_compared_cache_hit"]}
    return res
