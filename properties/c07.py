"""C07 -- constraint verdicts follow the documented selector/quantifier semantics."""
import random

ID = "C07"
LEVEL = "exploration"
RULE = ("cases: grammar (key/value list, recursive expression, nested message) x random constraint from the constraint sub-language (comparisons, "
        "arithmetic, str/int/len, and/or, `.`, `..`, [i], [i:j], *<A>, |<A>|, any/all comprehensions with identifier or symbol variables, old-style "
        "exists/forall, sub-expressions that raise on part of the trees) emitted both as .fan text and as /verif AST x trees from fuzzing and from parsing "
        "fixed words. Oracle: constraint.check(tree) of the real constraint object (eager and lazy spec) == vf/ref/constraint_sem.py verdict. "
        "Non-trivial: >= 1 symbol occurrence with >= 1 match; distinct by (constraint text, tree).")
TIMEOUTS = {"quick": (60, 300), "thorough": (120, 2400)}
MIN = {"quick": {"cases": 300, "nontrivial": 3000, "observed": {"triples": 4000, "lazy_compared": 2000, "triples_with_raising_combination": 200, "verdict_true": 500, "verdict_false": 500}},
       "thorough": {"cases": 6000, "nontrivial": 60000, "observed": {"triples": 80000}}}
ASSUMPTIONS = ["the Python expression itself is evaluated by CPython on the real node objects (value conversion is C09's business)",
               "a constraint text the spec reader rejects with an error is counted, not a violation (implication `->` is rejected with an internal error)",
               "an exception escaping check() counts as verdict False"]


def cases(tier, seed):
    rng = random.Random(7000 + seed)
    n = 480 if tier == "quick" else 9000
    gs = ["kv", "rec", "msg"]
    return [{"key": f"{gs[i % 3]}-{i}", "g": gs[i % 3], "seed": rng.randrange(1 << 30), "ncons": 6} for i in range(n)]


def classify(cons, tree, got, want, self_hits):
    from vf.gen import consgen

    fts = consgen.features(cons)
    keys = []
    if self_hits:
        keys.append("descendant-selector-includes-self")
    if "not-before-comparison" in fts:
        keys.append("not-before-comparison-binds-to-left-operand")
    return keys


def run_case(c):
    from collections import Counter
    from fandango import Fandango
    from vf.gen import consgen
    from vf.ref import constraint_sem as cs
    from vf.trees import pretty
    from vf import hooks

    rng = random.Random(c["seed"])
    text, info = consgen.GRAMMARS[c["g"]]
    stats = Counter()
    violations = []
    base = Fandango(text, use_stdlib=False)
    trees = []
    for w in consgen.WORDS[c["g"]]:
        t = base.grammar.parse(w)
        if t is not None:
            trees.append(t)
    random.seed(c["seed"])
    for b in (5, 15, 40, 40):
        trees.append(base.grammar.fuzz("<start>", max_nodes=b))
    distinct = 0
    for ci in range(c["ncons"]):
        cons = consgen.rand_constraint(rng, info)
        ctext = cs.to_text(cons)
        objs = {}
        try:
            for lazy in (False, True):
                f = Fandango(text + "where " + ctext + "\n", use_stdlib=False, lazy=lazy)
                objs[lazy] = f.constraints[-1]
        except Exception as e:
            stats["constraint_rejected"] += 1
            stats["constraint_rejected:" + type(e).__name__] += 1
            continue
        stats["constraints"] += 1
        for ft in consgen.features(cons):
            stats["feat:" + ft] += 1
        env = dict(base.grammar._global_variables)
        for t in trees:
            self_hits = []
            sr0 = cs.SELECTOR_RAISED[0]
            try:
                want = cs.evaluate(cons, t, env=env, self_hits=self_hits)
            except Exception as e:
                stats["reference_failed:" + type(e).__name__] += 1
                continue
            if cs.SELECTOR_RAISED[0] != sr0:
                # an index selector is out of range on this tree: the documentation does not say what that means
                stats["abstained_index_out_of_range"] += 1
                continue
            before = hooks.COUNTS["print_exception"]
            res = {}
            for lazy in (False, True):
                try:
                    res[lazy] = bool(objs[lazy].check(t))
                except Exception as e:
                    res[lazy] = False
                    stats["check_raised:" + type(e).__name__] += 1
            stats["triples"] += 1
            stats["lazy_compared"] += 1
            stats["verdict_true" if want else "verdict_false"] += 1
            raising = cs.has_raising_combination(cons, t, env=env)
            if raising:
                stats["triples_with_raising_combination"] += 1
            if hooks.COUNTS["print_exception"] > before:
                stats["triples_with_swallowed_exception"] += 1
            distinct += 1
            if res[False] != want or res[True] != want:
                # counterfactual attribution: the mismatch counts as a listed finding only if the reference,
                # deviating from the docs in exactly that respect, reproduces the observed verdict
                import itertools as _it
                cand = classify(cons, t, res, want, self_hits)
                opt_of = {"descendant-selector-includes-self": "ddot_includes_self",
                          "not-before-comparison-binds-to-left-operand": "not_binds_to_left_operand"}
                mech = None
                for size in range(1, len(cand) + 1):
                    for sub in _it.combinations(cand, size):
                        for k_ in opt_of.values():
                            cs.OPTS[k_] = False
                        for k_ in sub:
                            cs.OPTS[opt_of[k_]] = True
                        sr1 = cs.SELECTOR_RAISED[0]
                        try:
                            alt = cs.evaluate(cons, t, env=env)
                        except Exception:
                            alt = None
                        finally:
                            for k_ in opt_of.values():
                                cs.OPTS[k_] = False
                        if cs.SELECTOR_RAISED[0] != sr1:
                            # under the deviation an index selector runs out of range (the shape the check
                            # abstains on): the mismatch exists only because of the deviation
                            mech = "+".join(sub)
                            break
                        if alt == res[False] == res[True]:
                            mech = "+".join(sub)
                            break
                    if mech:
                        break
                what = (f"constraint `{ctext}` on tree {pretty(t)[:200]}: check() = {res[False]} (lazy spec: {res[True]}), documented semantics = {want}"
                        + (" [a combination raises]" if raising else ""))
                violations.append({"what": what, "mech": mech, "constraint": ctext, "tree": pretty(t)[:400]})
    stats["evaluations"] = stats["triples"]
    res = {"status": "violation" if violations else "ok", "violations": violations[:6], "stats": dict(stats),
           "nontrivial": distinct > 0, "distinct_count": distinct}
    if hash(c["key"]) % 40 == 0:
        res["sample"] = {"grammar": c["g"], "constraint": ctext, "trees": [pretty(t)[:100] for t in trees[:3]]}
    return res
