"""C18 -- Fandango instances in one process do not influence each other."""
import random

ID = "C18"
LEVEL = "exploration"
RULE = ("cases: (A-activity list, B, activity amounts): O_B = solutions / parse results of spec B in a fresh process; O'_B = the same after other spec objects "
        "A were created, fuzzed (long enough to trigger the adaptive tuner), parsed in the same process (B sets random_seed itself); pairs loading the same spec text with different options (lazy); file specs in different directories that include() a neighbour of the same name; protocol-mode pairs (A and B both run in IO mode against party classes of their own, with equal or different party names; compared: B's message sequence). Event logs are compared "
        "byte for byte; the global-limit trace (nodes.MAX_REPETITIONS at B's start/end) is recorded. On divergence a counterfactual attribution re-runs the "
        "pair with the suspected global reset to its import-time value before B; if the divergence disappears it is attributed to that mechanism, "
        "otherwise it is a fresh violation. Non-trivial: A performed >= 1 generation or parse before B; distinct by (A, B, activity).")
TIMEOUTS = {"quick": (170, 420), "thorough": (400, 3000)}
MIN = {"quick": {"cases": 70, "nontrivial": 60, "observed": {"pairs": 70, "pairs_with_tuner_growth": 8, "protocol_pairs_with_messages": 10}},
       "thorough": {"cases": 400, "nontrivial": 300, "observed": {"pairs": 400}}}
ASSUMPTIONS = ["B passes random_seed itself, so A's consumption of the global RNG is not an influence the statement forbids"]
NEED_CPP = True

A_SPECS = {
    "hard": "<start> ::= <d>+\n<d> ::= '0'|'1'\nwhere int(<start>) % 7 == 3 and len(str(<start>)) > 40\n",
    "computed": "<start> ::= <n> <x>{int(<n>)}\n<n> ::= '1'|'2'|'3'\n<x> ::= 'a' | 'b'\nwhere str(<x>) != 'c'\n",
    "easy": "<start> ::= ('a' | 'b'){3}\nwhere str(<start>) != 'aaa'\n",
    "stars": "<start> ::= <w>*\n<w> ::= 'x' | 'yy'\nwhere len(str(<start>)) > 25\n",
    "gen": "import random\n<start> ::= <id> <b>\n<id> ::= r'[0-9]{4}' := str(random.randint(1000, 9999))\n<b> ::= 'q'+\nwhere len(str(<b>)) > 2\n",
    "maxrep": "<start> ::= 'z'{2,}\nwhere len(str(<start>)) > 30\n",
}
B_SPECS = {
    "star": ("<start> ::= 'a'*\n", ["s:", "s:aaa", "s:" + "a" * 25]),
    "plus": ("<start> ::= <w>+\n<w> ::= 'x' | 'y'\n", ["s:xy", "s:" + "xy" * 14]),
    "open-brace": ("<start> ::= 'b'{2,}\n", ["s:bb", "s:" + "b" * 23]),
    "bounded": ("<start> ::= 'c'{2,5} <t>?\n<t> ::= 'end'\n", ["s:ccc", "s:ccend"]),
    "constrained": ("<start> ::= <d>+\n<d> ::= '0'|'1'|'2'\nwhere int(<start>) % 3 == 1\n", ["s:10", "s:22"]),
    "computed": ("<start> ::= <n> <x>{int(<n>)}\n<n> ::= '1'|'2'\n<x> ::= 'a'\n", ["s:1a", "s:2aa", "s:2a"]),
    "parse-only": ("<start> ::= <k> ('=' <v>)*\n<k> ::= 'k'+\n<v> ::= 'v' | <k>\n", ["s:k=v=kk", "s:kk", "s:k=" ]),
}


def io_spec(tag, rounds, names=("Fuzzer", "Extern"), reply_digit=7):
    """a request/response protocol spec whose parties live in the spec: `names[0]` is fandango's side, `names[1]` the peer that answers"""
    me, peer = names
    start = "".join(f"<{me}:{peer}:req{tag}{i}><{peer}:{me}:resp{tag}{i}>" for i in range(rounds))
    rules = "".join(f"<req{tag}{i}> ::= 'REQ-{tag}{i}\\n'\n<resp{tag}{i}> ::= 'RESP-{tag}{i} ' <digit> '\\n'\n" for i in range(rounds))
    answers = "".join(f"        if str(message) == 'REQ-{tag}{i}\\n':\n            self.receive('RESP-{tag}{i} {reply_digit}\\n', '{peer}')\n" for i in range(rounds))
    return (f"<start> ::= {start}\n{rules}\nclass {me}(FandangoParty):\n    def __init__(self):\n        super().__init__(connection_mode=ConnectionMode.OPEN)\n\n"
            f"    def send(self, message: DerivationTree, recipient: str):\n{answers}\nclass {peer}(FandangoParty):\n    def __init__(self):\n"
            f"        super().__init__(connection_mode=ConnectionMode.EXTERNAL)\n")


def cases(tier, seed):
    rng = random.Random(18000 + seed)
    n = 96 if tier == "quick" else 900
    out = []
    # the SAME spec text loaded twice with different options: B must behave as configured, not as the earlier object was
    LAZY_SPECS = [
        "<start> ::= <a> ',' <b>\n<a> ::= <d>{3}\n<b> ::= <d>{3}\n<d> ::= '0'|'1'|'2'|'3'|'4'|'5'|'6'|'7'|'8'|'9'\nwhere int(<a>) == 2 * int(<b>) + 1 or int(<a>) + int(<b>) == 777\n",
        "<start> ::= <w>+\n<w> ::= 'x' | 'yy' | <d>\n<d> ::= '1'|'2'|'3'\nwhere forall <v> in <w>: str(<v>) != 'x' and len(str(<start>)) > 6\n",
        "<start> ::= <k> '=' <v>\n<k> ::= r'[a-c]{2}'\n<v> ::= <d>+\n<d> ::= '0'|'5'|'7'\nwhere int(<v>) % 7 == 0 and len(str(<v>)) > 2 and str(<k>) != 'aa'\n",
    ]
    for i in range(10 if tier == "quick" else 90):
        spec = LAZY_SPECS[i % len(LAZY_SPECS)]
        b_lazy = i % 2 == 0
        st = {"population_size": rng.choice([8, 16]), "max_generations": rng.choice([6, 12]), "desired_solutions": rng.choice([5, 15])}
        pre = [{"spec": spec, "name": "same-text-other-options", "lazy": not b_lazy, "settings": dict(st), "random_seed": rng.randrange(1000),
                "fuzz": rng.random() < 0.5, "parse_inputs": []}]
        bcfg = {"spec": spec, "lazy": b_lazy, "settings": st, "random_seed": rng.randrange(1000), "parse_inputs": [], "fuzz": True}
        out.append({"key": f"same-text-lazy{int(not b_lazy)}->lazy{int(b_lazy)}-{i}", "pre": pre, "b": bcfg, "bname": "same-text"})
    # two projects in two directories, each with a main.fan that include()s a neighbour of the SAME name with other content
    for i in range(8 if tier == "quick" else 60):
        alts = [("'a' | 'b' | 'c'", "'x' | 'y' | 'z'"), ("'0' | '1'", "'7' | '8' | '9'"), ("<q> <q>\n<q> ::= 'm' | 'n'", "'k' | 'l'")][i % 3]
        st = {"population_size": 6, "max_generations": rng.choice([5, 15]), "desired_solutions": rng.choice([4, 8])}
        files = {"projA/base.fan": f"<item> ::= {alts[0]}\n", "projB/base.fan": f"<item> ::= {alts[1]}\n",
                 "projA/main.fan": "include('base.fan')\n<start> ::= <item> <item>\nwhere str(<start>)[0] != str(<start>)[-1]\n",
                 "projB/main.fan": "include('base.fan')\n<start> ::= <item> <item> <item>?\nwhere str(<start>)[0] != str(<start>)[-1]\n"}
        pre = [{"path": "projA/main.fan", "name": "project-A", "settings": dict(st), "random_seed": rng.randrange(1000), "fuzz": rng.random() < 0.7,
                "parse_inputs": rng.choice([[], ["s:ab"], ["s:xy"]])}]
        bcfg = {"path": "projB/main.fan", "settings": st, "random_seed": rng.randrange(1000), "parse_inputs": ["s:xy", "s:ab", "s:78", "s:kl"], "fuzz": True}
        out.append({"key": f"include-same-name-{i}", "pre": pre, "b": bcfg, "bname": "project-B", "files": files})
    # protocol-mode pairs: the party registry, the receive queue and the IO singleton belong to one spec object
    for i in range(14 if tier == "quick" else 120):
        same_names = i % 3 != 2
        a_names = ("Fuzzer", "Extern") if same_names else ("Client", "Server")
        pre = [{"spec": io_spec("A", rng.choice([1, 2, 3]), a_names, rng.choice([3, 5])), "name": "io-A" + ("" if same_names else "-other-names"), "io": True,
                "use_stdlib": True, "random_seed": rng.randrange(1000), "runs": rng.choice([1, 2])} for _ in range(rng.choice([1, 1, 2]))]
        if rng.random() < 0.3:
            pre.append({"spec": A_SPECS["easy"], "name": "easy", "settings": {"population_size": 8, "max_generations": 2, "desired_solutions": 3}, "random_seed": 1, "fuzz": True, "parse_inputs": []})
        bcfg = {"spec": io_spec("B", rng.choice([1, 2]), ("Fuzzer", "Extern"), 7), "io": True, "use_stdlib": True, "random_seed": rng.randrange(1000), "runs": rng.choice([1, 2])}
        out.append({"key": f"{'+'.join(p['name'] for p in pre)}->io-B-{i}", "pre": pre, "b": bcfg, "bname": "io-B"})
    an, bn = list(A_SPECS), list(B_SPECS)
    for i in range(n):
        k = rng.choice([1, 1, 2, 3])
        pre = []
        for _ in range(k):
            a = an[(i + rng.randrange(len(an))) % len(an)] if _ else an[i % len(an)]
            pre.append({"spec": A_SPECS[a], "name": a,
                        "settings": {"population_size": rng.choice([8, 16]), "max_generations": rng.choice([2, 6, 15]), "desired_solutions": rng.choice([3, 30])},
                        "random_seed": rng.randrange(1000), "fuzz": rng.random() < 0.9,
                        "parse_inputs": rng.choice([[], ["s:0101"], ["s:2ab"]])})
        b = bn[i % len(bn)]
        spec, words = B_SPECS[b]
        bcfg = {"spec": spec, "settings": {"population_size": rng.choice([6, 12]), "max_generations": rng.choice([2, 4]), "desired_solutions": rng.choice([6, 12])},
                "random_seed": rng.randrange(1000), "parse_inputs": words, "fuzz": b != "parse-only"}
        if rng.random() < 0.5:
            # the other spec objects are asked to parse the very inputs B will parse: nothing they remember may answer B
            for p_ in pre:
                p_["parse_inputs"] = list(words)
        out.append({"key": f"{'+'.join(p['name'] for p in pre)}->{b}-{i}", "pre": pre, "b": bcfg, "bname": b})
    return out


def run_case(c):
    import threading
    from collections import Counter
    from properties.c17 import run_child

    stats = Counter()
    violations = []
    tmp_root = None
    if c.get("files"):
        import os
        import tempfile
        import copy as _copy

        tmp_root = tempfile.mkdtemp(prefix="vf-c18-proj-")
        for rel, content in c["files"].items():
            os.makedirs(os.path.dirname(os.path.join(tmp_root, rel)), exist_ok=True)
            with open(os.path.join(tmp_root, rel), "w") as fh:
                fh.write(content)
        c = _copy.deepcopy(c)
        c["b"]["path"] = os.path.join(tmp_root, c["b"]["path"])
        for p_ in c["pre"]:
            p_["path"] = os.path.join(tmp_root, p_["path"])
    try:
        return _run_pair(c)
    finally:
        if tmp_root:
            import shutil
            shutil.rmtree(tmp_root, ignore_errors=True)


def _run_pair(c):
    import threading
    from collections import Counter
    from properties.c17 import run_child

    stats = Counter()
    violations = []
    alone = dict(c["b"])
    after = dict(c["b"])
    after["pre"] = c["pre"]
    box = {}
    th = threading.Thread(target=lambda: box.__setitem__("after", run_child(after, 160)))
    th.start()
    a, err = run_child(alone, 160)
    th.join()
    if a is None:
        return {"status": "inconclusive", "reason": f"child failed: {err}"}
    b, err = box["after"]
    if b is None:
        return {"status": "inconclusive", "reason": f"child (with A first) failed: {err}"}
    stats["pairs"] += 1
    tr_a = next(e[1] for e in a if e[0] == "trace")
    tr_b = next(e[1] for e in b if e[0] == "trace")
    if tr_b["max_repetitions_at_start"] != tr_a["max_repetitions_at_start"]:
        stats["pairs_with_tuner_growth"] += 1
    a2 = [e for e in a if e[0] == "main"]
    b2 = [e for e in b if e[0] == "main"]
    if a2 != b2:
        k = next((i for i in range(min(len(a2), len(b2))) if a2[i] != b2[i]), 0)
        what = (f"spec B ({c['bname']}) behaves differently after activity on other spec objects ({[p['name'] for p in c['pre']]}) in the same process: "
                f"alone {str(a2[k])[:200]} vs after {str(b2[k])[:200]}; MAX_REPETITIONS at B's start: {tr_a['max_repetitions_at_start']} vs {tr_b['max_repetitions_at_start']}")
        # counterfactual attribution
        mech = None
        cf = dict(after)
        cf["reset_globals"] = ["max_repetitions"]
        x, err = run_child(cf, 160)
        stats["counterfactual_runs"] += 1
        if x is not None and [e for e in x if e[0] == "main"] == a2:
            mech = "max-repetitions-global-raised"
        violations.append({"what": what, "mech": mech, "cfg": after})
    stats["evaluations"] = stats["pairs"]
    if c["bname"] == "io-B":
        stats["protocol_pairs"] += 1
        if any(e[1] == "io-run" and e[2] and e[2][0] for e in a2):
            stats["protocol_pairs_with_messages"] += 1
    nsol = sum(len(e[2]) for e in a2 if e[1] in ("solutions", "io-run"))
    res = {"status": "violation" if violations else "ok", "violations": violations, "stats": dict(stats), "nontrivial": True, "distinct_key": c["key"]}
    if hash(c["key"]) % 6 == 0 or violations:
        res["sample"] = {"A": [p["name"] for p in c["pre"]], "B": c["bname"], "solutions_of_B_alone": nsol, "trace_alone": tr_a, "trace_after": tr_b}
    return res
