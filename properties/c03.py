"""C03 -- a tree that satisfies all constraints is accepted as a solution."""
import itertools
import random

ID = "C03"
LEVEL = "exploration"
NEED_CPP = True
RULE = ("one case per (h, r, declaration order): spec with h distinct trivially-true `where` constraints and "
        "r computed repetitions, plus a second family whose constraints cycle through every constraint form (comparisons with and without matches, "
        "expressions, both quantifier styles, and/or) and a third in which one spec object serves two searches with different extra constraints; a satisfying tree (parsed from a satisfying word) is handed to the real "
        "Evaluator.evaluate_individual and must be yielded; then fuzz() runs end to end under the online "
        "accept monitor. Non-trivial: the tree reached evaluate_individual and both constraint classes "
        "reported 1.0. Distinct by (h, r, order).")
EXHAUSTIVE = {"quick": True, "thorough": True, "what": "all (h, r) with 0<=h,r<=N, h+r>=1 (N=12 quick, 16 thorough) x orders"}
TIMEOUTS = {"quick": (40, 240), "thorough": (90, 1500)}
MIN = {"quick": {"cases": 150, "nontrivial": 150, "observed": {"grid_satisfying_evals": 150, "grid_mixed_form_cases": 60, "grid_reuse_cases": 20}},
       "thorough": {"cases": 800, "nontrivial": 800, "observed": {"grid_satisfying_evals": 800}}}
ASSUMPTIONS = ["satisfaction of a tree is taken from construction (grid) or from the evaluator's own class verdicts (online monitor); C02/C07 judge those verdicts",
               "an end-to-end run that finds no solution without any monitor alarm is counted, not a violation (the search is heuristic)"]

ORDERS = ["rules_first", "constraints_first", "interleaved", "extra"]


# constraint forms that the satisfying word satisfies by construction (checked again at run time through each
# constraint's own check()): comparisons with and without matches (<opt> is absent from the satisfying tree, so a
# constraint over it holds vacuously), plain expressions, quantifiers of both styles, and/or
FORMS = [
    "len(str(<start>)) + {i} > 0",
    "int(<opt>) + {i} > 99",
    "str(<n>).isdigit() or {i} > 99",
    "forall <v> in <n>: int(<v>) + {i} > 0",
    "int(<n>) + {i} > 0 and len(str(<start>)) > 0",
    "exists <v> in <n>: int(<v>) + {i} >= 2",
    "int(<n>) + {i} < 0 or int(<n>) == 2",
    "all(int(v) + {i} > 0 for v in *<n>)",
    "str(<opt>) == 'q{i}'",
    "any(int(v) + {i} >= 2 for v in *<n>)",
]


def build_spec(h, r, order, forms=False):
    rules = ["<start> ::= <n> " + " ".join(f"<x{i}>{{int(<n>)}}" for i in range(r)) + (" <opt>?" if forms else ""),
             "<n> ::= '1' | '2' | '3'"]
    if forms:
        rules.append("<opt> ::= '7'")
    rules += [f"<x{i}> ::= '{chr(ord('a') + i)}'" for i in range(r)]
    cons = [f"where len(str(<start>)) + {i} > 0" for i in range(h)]
    if forms:
        cons = ["where " + FORMS[(i + h + r) % len(FORMS)].format(i=i) for i in range(h)]
    extra = []
    if order == "rules_first":
        lines = rules + cons
    elif order == "constraints_first":
        # constraints may only follow the rules they mention; put them right after the first two rules
        lines = rules[:2] + cons + rules[2:]
    elif order == "interleaved":
        lines = []
        rr, cc = list(rules), list(cons)
        lines += rr[:2]
        rr = rr[2:]
        while rr or cc:
            if cc:
                lines.append(cc.pop(0))
            if rr:
                lines.append(rr.pop(0))
    else:  # extra: half of the constraints come as extra constraints
        k = h // 2
        lines = rules + cons[:k]
        extra = [c[len("where "):] for c in cons[k:]]
    return "\n".join(lines) + "\n", extra


def cases(tier, seed):
    n = 12 if tier == "quick" else 16
    orders = ORDERS[:2] if tier == "quick" else ORDERS
    out = []
    for h in range(n + 1):
        for r in range(n + 1):
            if h + r == 0:
                continue
            for o in orders:
                if tier == "quick" and o != "rules_first" and (h + r) % 2:
                    continue
                out.append({"key": f"h{h}-r{r}-{o}", "h": h, "r": r, "order": o, "seed": seed,
                            "e2e": tier == "thorough" or (h + r) % 3 == 0})
            if h >= 1 and (tier == "thorough" or (h + r) % 2 == 0):
                out.append({"key": f"h{h}-r{r}-forms", "h": h, "r": r, "order": "rules_first", "forms": True, "seed": seed,
                            "e2e": (h + r) % 4 == 0})
            if (h + r) % 3 == 1 and (tier == "thorough" or h <= 6):
                # one spec object used for two searches with different extra constraints: the second search must accept a
                # tree that satisfies the spec and ITS extras, whatever the first search was asked for
                out.append({"key": f"h{h}-r{r}-reuse", "h": h, "r": r, "order": "rules_first", "reuse": True, "seed": seed, "e2e": False})
    return out


def setup():
    from vf.monitors import accept

    accept.install()


def run_case(c):
    import random as _r
    from fandango import Fandango
    from vf.monitors import accept
    from vf import hooks

    accept.reset()
    h, r, order = c["h"], c["r"], c["order"]
    text, extra = build_spec(h, r, order, forms=c.get("forms", False))
    stats = {"evaluations": 0}
    violations = []
    f = Fandango(text, use_stdlib=False)
    ncons = len(f.constraints)
    # a satisfying word: n = 2, every x_i twice
    word = "2" + "".join(chr(ord("a") + i) * 2 for i in range(r))
    tree = f.grammar.parse(word)
    if tree is None:
        return {"status": "inconclusive", "reason": "satisfying word not parsed"}
    f.grammar.populate_sources(tree)
    if c.get("reuse"):
        # an earlier search on the same object with extras the satisfying word does NOT meet (n is 2 in that word)
        f.init_population(extra_constraints=["int(<n>) == 1", "len(str(<start>)) < 3"], population_size=4, random_seed=c["seed"])
        list(f.fandango.evaluator.evaluate_individual(tree))
        extra = list(extra) + ["int(<n>) == 2"]
        h += 1
        stats["grid_reuse_cases"] = 1
    f.init_population(extra_constraints=extra or None, population_size=4, random_seed=c["seed"])
    ev = f.fandango.evaluator
    nh, nr = len(ev._hard_constraints), len(ev._repetition_bounds_constraints)
    if c.get("reuse"):
        pass      # decided by the observable below: the tree satisfies the spec and THIS call's extras and must be yielded
    elif nh != h or nr != r:
        return {"status": "inconclusive", "reason": f"spec has h={nh} r={nr}, wanted {h},{r}"}
    if c.get("forms"):
        # satisfaction by construction, confirmed through every constraint's own verdict
        bad = [x.format_as_spec() for x in list(ev._hard_constraints) + list(ev._repetition_bounds_constraints) if not x.check(tree)]
        if bad:
            return {"status": "inconclusive", "reason": f"constructed tree does not satisfy {bad[:2]}"}
        stats["grid_mixed_form_cases"] = 1
    before = hooks.COUNTS["accept_monitor_satisfying"]
    got = list(ev.evaluate_individual(tree))
    stats["evaluations"] += 1
    reached = hooks.COUNTS["accept_monitor_satisfying"] - before
    stats["grid_satisfying_evals"] = reached
    if not any(t is tree for t in got):
        cached = ev._fitness_cache.get(hash((tree.get_root(), tree)))
        violations.append({
            "what": f"(h={h}, r={r}, order={order}): a tree satisfying all {h}+{r} constraints by construction "
                    f"(word {word!r}) was not yielded by evaluate_individual; fitness={cached[0] if cached else None!r}",
            "mech": None,
        })
    # second sighting must not be reported again (not demanded by C03; just exercised)
    list(ev.evaluate_individual(tree))
    e2e_solutions = None
    if c.get("e2e") and not violations:
        f2 = Fandango(text, use_stdlib=False)
        sols = f2.fuzz(extra_constraints=extra or None, desired_solutions=1, max_generations=6,
                       population_size=8, random_seed=c["seed"] + 1)
        e2e_solutions = len(sols)
        stats["e2e_runs"] = 1
        stats["e2e_runs_with_solution"] = 1 if sols else 0
        stats["evaluations"] += 1
    for v in accept.VIOLATIONS:
        violations.append({"what": f"(h={h}, r={r}, order={order}) online: " + v["what"], "mech": None, "witness": v})
    res = {"status": "violation" if violations else "ok", "violations": violations, "stats": stats,
           "nontrivial": reached > 0, "distinct_key": [c["h"], r, order, bool(c.get("forms")), bool(c.get("reuse"))]}
    if h == 1 and r in (0, 5) and order == "rules_first":
        res["sample"] = {"h": h, "r": r, "order": order, "spec": text, "word": word, "yielded": not violations,
                         "e2e_solutions": e2e_solutions}
    return res
