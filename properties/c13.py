"""C13 -- incremental parsing is independent of how the input is fragmented."""
import itertools
import random

ID = "C13"
LEVEL = "exploration"
RULE = ("cases: generated grammar (text / bytes / bits / mixed / non-ASCII) x input (words of the reference language, fuzzed words, near misses) x "
        "composition of the input into consecutive non-empty fragments: ALL 2^(n-1) compositions for n <= 9 (quick) / 11 (thorough), 300 sampled ones "
        "beyond (always all-singletons and every single cut). Oracle per composition: the set of complete parses yielded by the last consume() equals "
        "the set for the input fed at once and equals parse_forest(input); after every fragment can_continue() may be False only if the reference "
        "enumerator knows no word extending the consumed prefix. Also the protocol path: FandangoIO-style byte-by-byte feeding with only the first tree "
        "taken per consume (as io/packetparser.py does). Non-trivial: >= 2 fragments; distinct by (grammar, input, composition).")
EXHAUSTIVE = {"quick": True, "thorough": True, "what": "all compositions of every input of length <= 9 (quick) / 11 (thorough) symbols"}
TIMEOUTS = {"quick": (90, 420), "thorough": (300, 2700)}
MIN = {"quick": {"cases": 100, "nontrivial": 20000, "observed": {"compositions": 20000, "can_continue_checks": 20000}},
       "thorough": {"cases": 1000, "nontrivial": 400000, "observed": {"compositions": 400000}}}
ASSUMPTIONS = ["'extendable' is decided by a bounded enumeration of the reference language: only a found extension can refute can_continue()==False (sound, incomplete)",
               "grammars with the C06 divergence features are not generated here; a step budget turns a runaway parse into an inconclusive input"]

PROFILES = [
    ("text", dict(kind="text")),
    ("text-regex", dict(kind="text", regex=0.5)),
    ("text-ambiguous", dict(kind="text", regex=0.3, regex_delimited=False, max_rep=3)),
    ("bytes", dict(kind="bytes")),
    ("bits", dict(kind="bits")),
    ("mixed", dict(kind="mixed")),
    ("bitstruct", None),
    ("text-nonascii", dict(kind="text", non_ascii=0.4)),
]


def cases(tier, seed):
    rng = random.Random(13000 + seed)
    n = 160 if tier == "quick" else 1600
    return [{"key": f"{PROFILES[i % len(PROFILES)][0]}-{i}", "profile": PROFILES[i % len(PROFILES)][0],
             "gseed": rng.randrange(1 << 30), "seed": rng.randrange(1 << 30), "nmax": 9 if tier == "quick" else 11} for i in range(n)]


def setup():
    from vf.monitors import steps

    steps.install()


def compositions(n, nmax, rng, sample=300):
    """cut masks: tuple of cut positions (1..n-1)"""
    if n <= 1:
        return [()]
    if n <= nmax:
        out = []
        for mask in range(1 << (n - 1)):
            out.append(tuple(i + 1 for i in range(n - 1) if mask >> i & 1))
        return out
    out = {(), tuple(range(1, n))}
    for i in range(1, n):
        out.add((i,))
    while len(out) < sample:
        out.add(tuple(i for i in range(1, n) if rng.random() < rng.choice([0.15, 0.5, 0.85])))
    return sorted(out)


def run_case(c):
    from collections import Counter
    from fandango import Fandango
    from fandango.language.grammar import ParsingMode
    from fandango.language.grammar.parser.iterative_parser import IterativeParser
    from vf.gen import specgen, inputs
    from vf.monitors import steps
    from vf.ref import treeval
    from vf.ref.grammar_model import RefGrammar
    from vf.trees import shape, pretty

    rng = random.Random(c["seed"])
    prof = dict(PROFILES)[c["profile"]]
    grng = random.Random(c["gseed"])
    if prof is None:
        rules = specgen.bitstruct_grammar(grng)
        model = RefGrammar(specgen.model_rules(rules))
    else:
        rules, feats, model = specgen.random_grammar(grng, specgen.Profile(**prof))
    text = specgen.to_spec(rules)
    f = Fandango(text, use_stdlib=False)
    binary = model.binary
    stats = Counter()
    violations = []
    distinct = 0

    def engines_disagree(inp_):
        """whole-input matching uses `re`, fragment-wise (partial) matching uses the third-party `regex` module: the two
        classify some characters differently under the class escapes (e.g. superscripts and fractions are \\w for `re`
        only).  True iff the grammar has a regex terminal with a class escape under which some character of the input
        is classified differently by the two engines."""
        import re as _re
        import regex as _regex

        if isinstance(inp_, bytes):
            return False
        for e_ in model.all_exprs():
            if e_[0] != "regex" or e_[2]:
                continue
            for esc in ("\\w", "\\d", "\\s", "\\W", "\\D", "\\S"):
                if esc in e_[1]:
                    for ch in set(inp_):
                        if bool(_re.fullmatch(esc, ch)) != bool(_regex.fullmatch(esc, ch)):
                            return True
        return False
    alpha = inputs.alphabet(model)
    # inputs
    ws = model.words("<start>", max_len=10 if not binary else 6, cap=600)
    wordset = set(ws)
    pool = []
    rng.shuffle(ws)
    by_len = sorted(ws, key=lambda w: (abs(len(w) // (8 if binary else 1) - 8), w))
    for w in sorted(ws[:40], key=len)[:2] + by_len[:4]:
        inp = inputs.to_input(w, binary)
        if inp is not None and inp not in pool:
            pool.append(inp)
    random.seed(c["seed"])
    for _ in range(2):
        try:
            t = f.grammar.fuzz("<start>", max_nodes=rng.choice([10, 30]))
            seq = treeval.leaf_seq(t)
            inp = treeval.to_bytes(seq) if binary else treeval.to_str(seq)
            if inp is not None and 0 < len(inp) <= 14 and inp not in pool:
                pool.append(inp)
        except Exception:
            pass
    for inp in list(pool[:2]):
        t0 = inp.decode("latin-1") if binary else inp
        for nm in inputs.near_misses(t0, rng, alpha, n=2):
            try:
                x = nm.encode("latin-1") if binary else nm
            except UnicodeEncodeError:
                continue
            if x not in pool and len(x) <= 14:
                pool.append(x)
    pool = [p for p in pool if len(p) >= 1][:7]

    var_regex = any(e[0] == "regex" and len({len(x) for x in model.regex_samples(e[1], e[2])}) > 1 for e in model.all_exprs())

    def dumps_of(trees):
        return sorted(repr(shape(t)) for t in trees)

    for inp in pool:
        n = len(inp)
        # reference results: at once through the iterative parser, and parse_forest
        steps.reset(budget=300000)
        try:
            forest = list(itertools.islice(f.grammar.parse_forest(inp, "<start>"), 300))
            ip = IterativeParser(f.grammar.rules)
            ip.new_parse("<start>", ParsingMode.COMPLETE)
            once = [ip.collapse(t) for t, complete in ip.consume(inp) if complete]
        except steps.StepBudgetExceeded:
            stats["inputs_step_budget"] += 1
            continue
        if len(forest) >= 300:
            stats["inputs_forest_too_large"] += 1
            continue
        ref_forest = dumps_of(forest)
        ref_once = dumps_of(once)
        if ref_once != ref_forest:
            violations.append({"what": f"input {inp!r}: complete parses of consume(whole input) ({len(once)}) differ from parse_forest ({len(forest)})", "mech": None})
            continue
        word = inputs.from_input(inp, binary)
        for cuts in compositions(n, c["nmax"], rng):
            bounds = (0,) + cuts + (n,)
            frags = [inp[bounds[i]:bounds[i + 1]] for i in range(len(bounds) - 1)]
            steps.reset(budget=300000)
            ip = IterativeParser(f.grammar.rules)
            ip.new_parse("<start>", ParsingMode.COMPLETE)
            last = []
            ok = True
            try:
                consumed = 0
                for fi, fr in enumerate(frags):
                    last = [(t, comp) for t, comp in ip.consume(fr)]
                    consumed += len(fr)
                    cc = ip.can_continue()
                    stats["can_continue_checks"] += 1
                    if not cc and consumed < n:
                        # a proper prefix of this very input: the input itself is an extension if it is in L
                        pw = inputs.from_input(inp[:consumed], binary)
                        ext = None
                        if ref_forest:
                            ext = word
                        else:
                            for w2 in wordset:
                                if len(w2) > len(pw) and w2.startswith(pw):
                                    ext = w2
                                    break
                        if ext is not None:
                            from properties.c05 import classify

                            mech = classify(model, ext, "<start>")   # the extension itself may be unparseable for a known C05 mechanism
                            if mech is None and engines_disagree(inp[:consumed]):
                                mech = "partial-match-engine-classifies-characters-differently"
                            if mech is None and var_regex:
                                # counterfactual: the same prefix fed symbol by symbol is NOT refused -> the refusal comes from the
                                # greedy (longest) regex match inside a multi-symbol fragment
                                try:
                                    ip2 = IterativeParser(f.grammar.rules)
                                    ip2.new_parse("<start>", ParsingMode.COMPLETE)
                                    for j_ in range(consumed):
                                        list(ip2.consume(inp[j_:j_ + 1]))
                                    if ip2.can_continue():
                                        mech = "regex-longest-match-only-when-fed-at-once"
                                except BaseException as e_:
                                    if type(e_).__name__ in ("CaseTimeout", "KeyboardInterrupt"):
                                        raise
                            violations.append({"what": f"input {inp!r} fed as {frags!r}: can_continue() is False after {inp[:consumed]!r} although "
                                                       f"{inputs.to_input(ext, binary)!r} (in the reference language) extends it", "mech": mech})
                            ok = False
                            break
                    elif not cc:
                        stats["cannot_continue_at_end"] += 1
            except steps.StepBudgetExceeded:
                stats["inputs_step_budget"] += 1
                continue
            except Exception as e:
                violations.append({"what": f"input {inp!r} fed as {frags!r}: consume raised {type(e).__name__}: {str(e)[:100]} (feeding it at once does not)", "mech": None})
                continue
            stats["compositions"] += 1
            if len(frags) >= 2:
                distinct += 1
            if not ok:
                continue
            got_trees = [ip.collapse(t) for t, comp in last if comp]
            got = dumps_of(got_trees)
            if len(set(got)) != len(got):
                stats["duplicate_complete_parses"] += 1
            if set(got) != set(ref_forest):
                mech = None
                extra = [t for t in got_trees if repr(shape(t)) not in set(ref_forest)]
                if set(ref_forest) <= set(got) and extra and var_regex:
                    # every extra parse is a valid derivation of the same input: the whole-input parser only tries the
                    # longest regex match, a fragment boundary lets a shorter match complete
                    okx = True
                    for t in extra:
                        seq = treeval.leaf_seq(t)
                        ser = treeval.to_bytes(seq) if binary else treeval.to_str(seq)
                        if model.check_tree(t, "<start>") or ser != inp:
                            okx = False
                    if okx:
                        mech = "regex-longest-match-only-when-fed-at-once"
                if mech is None and len(set(got)) < len(set(ref_forest)) and engines_disagree(inp):
                    mech = "partial-match-engine-classifies-characters-differently"
                violations.append({"what": f"input {inp!r} fed as {frags!r}: {len(set(got))} distinct complete parses after the last fragment, {len(set(ref_forest))} when fed at once"
                                           + ("" if len(set(got)) != len(set(ref_forest)) else " (different trees)"), "mech": mech})
            if len(violations) > 6:
                break
        # protocol style: single symbols, first tree only per consume (suspended generators)
        steps.reset(budget=300000)
        try:
            ip = IterativeParser(f.grammar.rules)
            ip.new_parse("<start>", ParsingMode.COMPLETE)
            first = None
            for i in range(n):
                fr = inp[i:i + 1]
                tree, comp = next(ip.consume(fr), (None, None))
                if i == n - 1:
                    first = (tree, comp)
            stats["protocol_style_feeds"] += 1
            if ref_forest:
                if first is None or first[0] is None or not first[1]:
                    violations.append({"what": f"input {inp!r} fed symbol by symbol, first tree only (packetparser style): no complete parse after the last symbol, {len(ref_forest)} when fed at once",
                                       "mech": "partial-match-engine-classifies-characters-differently" if engines_disagree(inp) else None})
                elif repr(shape(ip.collapse(first[0]))) not in ref_forest:
                    # a parse the whole-input parser does not produce: the known longest-match mechanism if (and only if) it
                    # is a genuine derivation of exactly this input
                    mech = None
                    tcol = ip.collapse(first[0])
                    seq_ = treeval.leaf_seq(tcol)
                    ser_ = treeval.to_bytes(seq_) if binary else treeval.to_str(seq_)
                    if var_regex and not model.check_tree(tcol, "<start>") and ser_ == inp:
                        mech = "regex-longest-match-only-when-fed-at-once"
                    violations.append({"what": f"input {inp!r} fed symbol by symbol: the complete parse differs from every parse of the whole input", "mech": mech})
            else:
                if first is not None and first[0] is not None and first[1]:
                    # known mechanism (seen from its other side): the whole-input parser only tries the LONGEST match of a
                    # regex terminal and so misses this word; fed symbol by symbol a shorter match completes. Attributed
                    # only if the parse obtained is a genuine derivation of exactly this input.
                    mech = None
                    tcol = ip.collapse(first[0])
                    seq_ = treeval.leaf_seq(tcol)
                    ser_ = treeval.to_bytes(seq_) if binary else treeval.to_str(seq_)
                    if var_regex and not model.check_tree(tcol, "<start>") and ser_ == inp:
                        mech = "regex-longest-match-only-when-fed-at-once"
                    violations.append({"what": f"input {inp!r} (not parseable at once) yields a complete parse when fed symbol by symbol", "mech": mech})
        except steps.StepBudgetExceeded:
            stats["inputs_step_budget"] += 1
        except Exception as e:
            violations.append({"what": f"input {inp!r} fed symbol by symbol: raised {type(e).__name__}: {str(e)[:100]}", "mech": None})
        stats["inputs"] += 1
        stats["inputs_in_language" if ref_forest else "inputs_outside_language"] += 1
    stats["evaluations"] = stats["compositions"]
    stats["distinct_compositions"] = distinct
    res = {"status": "violation" if violations else "ok", "violations": violations[:6], "stats": dict(stats),
           "nontrivial": distinct > 0, "distinct_count": distinct}
    if hash(c["key"]) % 20 == 0 or violations:
        res["sample"] = {"spec": text, "inputs": [repr(p) for p in pool], "compositions": stats["compositions"]}
    return res
