#!/venv/bin/python
"""Verify a seeded breaking change delivered by a sub-agent and run the checks against it.

usage: tools/seed_verify.py <seed-id> <agent-worktree> <property> [more properties to run...]
Steps (all in the scratch worktree /tmp/wt/seedv, reset to /repo's HEAD first):
  1. demo passes on the unmodified tree;  2. patch applies;  3. demo fails with the patch;
  4. the repository's suite still passes (784 stable tests) with the patch;
  5. ./check <property> --tier quick with VERIF_REPO=<scratch>  -> caught?
Results go to /verif/seeded/<seed-id>/meta.json (next to patch.diff and the demo)."""
import json, os, shutil, subprocess, sys, time

WT = "/tmp/wt/seedv"


def sh(cmd, timeout=1800):
    return subprocess.run(cmd, shell=True, capture_output=True, text=True, timeout=timeout)


def ensure_worktree():
    """the scratch worktree lives outside /repo and /verif and is removed by hand when done
    (`git -C /repo worktree remove --force <dir>`); it is (re)created here when missing"""
    import glob
    if not os.path.isdir(os.path.join(WT, "src")):
        os.makedirs(os.path.dirname(WT), exist_ok=True)
        subprocess.run(f"git -C /repo worktree prune; git -C /repo worktree add --detach {WT} HEAD -q", shell=True, check=True)
    so = sorted(glob.glob("/verif/.cache/cpp/*/sa_fandango_cpp_parser.so"), key=os.path.getmtime)
    dst = os.path.join(WT, "src/fandango/language/parser/sa_fandango_cpp_parser.so")
    if so and not os.path.exists(dst):
        import shutil
        shutil.copy(so[-1], dst)


def main():
    sid, awt, prop = sys.argv[1:4]
    ensure_worktree()
    others = sys.argv[4:]
    dst = f"/verif/seeded/{sid}"
    os.makedirs(dst, exist_ok=True)
    for fn in ("patch.diff", "demo.py", "meta.json"):
        src = os.path.join(awt, "_seed", fn)
        if os.path.exists(src):
            shutil.copy(src, os.path.join(dst, fn if fn != "meta.json" else "agent_meta.json"))
    head = sh("git -C /repo rev-parse HEAD").stdout.strip()
    sh(f"git -C {WT} checkout -q --detach {head} && git -C {WT} checkout -- . && git -C {WT} clean -fdq -e '*.so'")
    os.makedirs(f"{WT}/_seed", exist_ok=True)
    shutil.copy(f"{dst}/demo.py", f"{WT}/_seed/demo.py")
    # the demo hard-codes the agent's worktree path in some cases
    txt = open(f"{WT}/_seed/demo.py").read().replace(awt, WT)
    open(f"{WT}/_seed/demo.py", "w").write(txt)
    res = {"seed": sid, "property": prop, "repo_head": head}
    env = f"cd {WT} && PYTHONPATH={WT}/src PYTHONHASHSEED=0 timeout 900 /venv/bin/python _seed/demo.py"
    r = sh(env)
    res["demo_unmodified_exit"] = r.returncode
    r = sh(f"git -C {WT} apply {dst}/patch.diff")
    res["patch_applies"] = r.returncode == 0
    if r.returncode != 0:
        res["apply_error"] = r.stderr[-300:]
        json.dump(res, open(f"{dst}/meta.json", "w"), indent=1)
        print(json.dumps(res, indent=1))
        return
    r = sh(env)
    res["demo_with_change_exit"] = r.returncode
    res["demo_with_change_tail"] = (r.stdout + r.stderr).strip()[-300:]
    if "--skip-suite" in sys.argv and os.path.exists(f"{dst}/meta.json"):
        prev = json.load(open(f"{dst}/meta.json"))
        for k_ in ("suite_with_change", "suite_ok", "suite_wall", "flaky_io_test_rerun_alone"):
            if k_ in prev:
                res[k_] = prev[k_]
    if "--skip-suite" not in sys.argv:
        t0 = time.time()
        r = sh(f"cd {WT} && env -u FANDANGO_VERIF PYTHONPATH={WT}/src /venv/bin/python -m pytest -q -p no:cacheprovider --timeout=900 --continue-on-collection-errors -n 6 --junitxml=/tmp/seedv.xml tests > /tmp/seedv.log 2>&1; tail -1 /tmp/seedv.log; /venv/bin/python /verif/tools/baseline_compare.py /tmp/seedv.xml | head -5")
        res["suite_with_change"] = r.stdout.strip()[-400:]
        res["suite_ok"] = "stable-not-passed=0" in r.stdout
        if not res["suite_ok"] and "stable-not-passed=1" in r.stdout and "test_io_smtp_inputs" in r.stdout:
            # a wall-clock dependent protocol test that times out when the machine is loaded: re-run it alone
            r2 = sh(f"cd {WT} && PYTHONPATH={WT}/src /venv/bin/python -m pytest -q -p no:cacheprovider --timeout=900 tests/test_grammar_coverage.py 2>&1 | tail -1")
            res["flaky_io_test_rerun_alone"] = r2.stdout.strip()
            res["suite_ok"] = "1 passed" in r2.stdout
        res["suite_wall"] = round(time.time() - t0)
    checks = {}
    for p in [prop] + [o for o in others if not o.startswith("--")]:
        t0 = time.time()
        r = sh(f"cd /verif && VERIF_REPO={WT} ./check {p} --tier quick", timeout=1500)
        fresh = [l for l in r.stdout.splitlines() if l.startswith("VIOLATION")]
        first = next((l.strip() for l in r.stdout.splitlines() if l.strip().startswith("what:")), "")
        checks[p] = {"caught": bool(fresh), "exit": r.returncode, "violations_reported": len(fresh), "first": first[:300],
                     "tail": (r.stdout.strip().splitlines() or [""])[-1][:200], "wall": round(time.time() - t0)}
    res["checks"] = checks
    am = {}
    try:
        am = json.load(open(f"{dst}/agent_meta.json"))
    except Exception:
        pass
    res["what_changed"] = am.get("what_changed")
    res["needs_to_manifest"] = am.get("needs_to_manifest")
    res["ran"] = [f"demo on unmodified scratch worktree: exit {res['demo_unmodified_exit']}", f"demo with patch: exit {res.get('demo_with_change_exit')}",
                  f"suite with patch: {res.get('suite_with_change', 'skipped')}"] + [f"./check {p} --tier quick (VERIF_REPO=scratch): {'CAUGHT' if c['caught'] else 'missed'} ({c['tail']})" for p, c in checks.items()]
    json.dump(res, open(f"{dst}/meta.json", "w"), indent=1)
    sh(f"git -C {WT} checkout -- . ")
    print(json.dumps({k: v for k, v in res.items() if k not in ("ran",)}, indent=1)[:1800])


if __name__ == "__main__":
    main()
