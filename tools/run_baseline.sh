#!/bin/bash
# Runs the repository's suite against /repo/src (guard off) and compares with BASELINE.json
OUT=${1:-/tmp/vf-baseline.junit.xml}
cd /repo && env -u FANDANGO_VERIF PYTHONPATH=/repo/src /venv/bin/python -m pytest -ra -q -p no:cacheprovider --timeout=900 --continue-on-collection-errors -n ${JOBS:-8} --junitxml=$OUT > /tmp/vf-baseline.log 2>&1
tail -3 /tmp/vf-baseline.log
/venv/bin/python /verif/tools/baseline_compare.py $OUT
