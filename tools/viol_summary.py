#!/venv/bin/python
"""Run a property's workers and summarise ALL violations by mechanism / signature (debugging aid)."""
import sys, os, json, subprocess, tempfile, re
from collections import Counter
prop, tier = sys.argv[1], (sys.argv[2] if len(sys.argv) > 2 else "quick")
seed = os.environ.get("VERIF_SEED", "0")
tmp = tempfile.mkdtemp()
env = dict(os.environ, PYTHONHASHSEED="0", PYTHONPATH="/verif")
env.pop("FANDANGO_RAISE_ALL_EXCEPTIONS", None)
ps = [subprocess.Popen(["/venv/bin/python", "-u", "-m", "vf.worker", prop, tier, seed, str(s), "16", f"{tmp}/o{s}"], cwd="/verif", env=env,
                       stdout=subprocess.DEVNULL, stderr=subprocess.DEVNULL) for s in range(16)]
for p in ps:
    p.wait()
cnt = Counter(); ex = {}
for s in range(16):
    for line in open(f"{tmp}/o{s}"):
        o = json.loads(line)
        for v in o.get("violations") or []:
            w = v["what"]
            m = re.search(r"first AST difference (.*)\)$", w)
            sig = m.group(1) if m else w[:80]
            sig = re.sub(r"\[\d+\]", "[i]", sig)
            sig = re.sub(r"'[^']*' vs '[^']*'", "'..' vs '..'", sig)
            key = (v.get("mech"), sig[:150])
            cnt[key] += 1
            ex.setdefault(key, (v.get("program") or w)[:200])
for k, n in cnt.most_common(60):
    print(n, k[0], "|", k[1], "| e.g.", repr(ex[k]))
