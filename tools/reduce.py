#!/venv/bin/python
"""Delta-debugging reducer for (grammar AST, word) witnesses of parser incompleteness:
keeps "reference accepts, fandango rejects" while simplifying grammar and word."""
import sys
sys.path.insert(0, "/verif")
from vf import bootstrap
bootstrap.bootstrap()
from vf import hooks
hooks.silence_logger()
from vf.gen import specgen, inputs
from vf.ref.grammar_model import RefGrammar
from fandango import Fandango
import signal


class TO(BaseException):
    pass


def _al(*a):
    raise TO()


def failing(rules, w):
    try:
        rules = specgen.prune_unreachable(rules)
        if not specgen.is_productive(rules):
            return False
        m = RefGrammar(specgen.model_rules(rules))
        if not m.accepts(w, "<start>"):
            return False
        if specgen.has_left_recursion(m):
            return False
        ft = m.features()
        if "nullable-body-under-repetition" in ft or "nullable-or-unit-derivation-cycle" in ft:
            return False
        from properties.c05 import classify
        if classify(m, w, "<start>") is not None:
            return False
        inp = inputs.to_input(w, m.binary)
        if inp is None:
            return False
        signal.signal(signal.SIGALRM, _al)
        signal.alarm(5)
        try:
            f = Fandango(specgen.to_spec(rules), use_stdlib=False)
            return f.grammar.parse(inp) is None
        finally:
            signal.alarm(0)
    except TO:
        return False
    except Exception:
        return False


def variants(e):
    k = e[0]
    if k in ("seq", "alt"):
        items = list(e[1])
        for i in range(len(items)):
            if len(items) > 1:
                rest = items[:i] + items[i + 1:]
                yield (k, tuple(rest)) if len(rest) > 1 else rest[0]
            yield items[i]
        for i, it in enumerate(items):
            for v in variants(it):
                yield (k, tuple(items[:i] + [v] + items[i + 1:]))
    elif k == "rep":
        yield e[1]
        if e[2] > 0:
            yield ("rep", e[1], e[2] - 1, e[3], e[4]) + tuple(e[5:6] and ("{n,m}",) if False else ())
        for v in variants(e[1]):
            yield ("rep", v) + tuple(e[2:])
    elif k == "regex":
        from vf.ref import regex_table
        for s in regex_table.samples_for(e[1])[:2]:
            yield ("lit", s.encode("latin-1") if e[2] else s)
    elif k == "nt":
        pass


def reduce(rules, w):
    from collections import OrderedDict
    rules = OrderedDict(rules)
    changed = True
    while changed:
        changed = False
        # shrink word
        i = 0
        while i < len(w):
            cand = w[:i] + w[i + 1:]
            if failing(rules, cand):
                w = cand
                changed = True
            else:
                i += 1
        for n in list(rules):
            for v in variants(rules[n]):
                r2 = OrderedDict(rules)
                r2[n] = v
                if failing(r2, w):
                    rules = specgen.prune_unreachable(r2)
                    changed = True
                    break
            if changed:
                break
        # inline: replace a nonterminal reference by its rule
    return rules, w


if __name__ == "__main__":
    import json, random, importlib
    rep = json.load(open(sys.argv[1]))
    c = rep["case"]
    mod = importlib.import_module("properties." + rep["property"].lower())
    prof = dict(mod.PROFILES)[c["profile"]]
    g = random.Random(c["gseed"])
    rules = specgen.bitstruct_grammar(g) if prof is None else specgen.random_grammar(g, specgen.Profile(**prof))[0]
    w = eval(sys.argv[2])
    m = RefGrammar(specgen.model_rules(rules))
    if isinstance(w, bytes):
        w = inputs.from_input(w, True)
    print("failing initially:", failing(rules, w))
    rules, w = reduce(rules, w)
    print(specgen.to_spec(rules))
    print(repr(w))
