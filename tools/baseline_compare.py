#!/venv/bin/python
"""Compare a junit xml of the repo suite with BASELINE.json's stable_pass list."""
import json
import sys
import xml.etree.ElementTree as ET

base = json.load(open("/root/.vp/BASELINE.json"))
stable = set(base["stable_pass"])
tree = ET.parse(sys.argv[1])
passed, failed = set(), set()
for tc in tree.iter("testcase"):
    name = f"{tc.get('classname')}::{tc.get('name')}"
    bad = any(ch.tag in ("failure", "error", "skipped") for ch in tc)
    (failed if bad else passed).add(name)
missing = sorted(stable - passed)
print(f"stable_pass={len(stable)} passed={len(passed)} failed/skipped={len(failed)} stable-not-passed={len(missing)}")
for m in missing[:40]:
    print("  NOT PASSED:", m)
sys.exit(1 if missing else 0)
