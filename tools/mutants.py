#!/venv/bin/python
"""Own sensitivity trials: apply one small edit to a scratch worktree, run the named check against it
(VERIF_REPO), record whether it raises a fresh VIOLATION. Usage: tools/mutants.py [ids...]"""
import json, os, subprocess, sys, time

WT = os.environ.get("MUT_WT", "/tmp/wt/mine")
S = "src/fandango/"
M = [
 # id, property, file, old, new
 ("c01-rep-fuzz-max+1", "C01", S+"language/grammar/nodes/repetition.py", "rep_goal = random.randint(self.min, self.max)", "rep_goal = random.randint(self.min, self.max + 1)"),
 ("c01-insert-index", "C01", S+"constraints/repetition_bounds.py", "insertion_index = index + 1", "insertion_index = index"),
 ("c01-delete-partial", "C01", S+"constraints/repetition_bounds.py", "if curr_rep_id != rep_id and reps_deleted >= nr_to_delete:", "if reps_deleted >= nr_to_delete:"),
 ("c01-replace-no-symbol-test", "C01", S+"language/tree.py", "            and self.symbol == path_to_replacement[current_path].symbol\n", ""),
 ("c02-threshold-099", "C02", S+"evolution/evaluation.py", "if fitness >= self._expected_fitness and key not in self._solution_set:", "if fitness >= self._expected_fitness - 0.34 and key not in self._solution_set:"),
 ("c02-forall-any", "C02", S+"constraints/forall.py", "overall = all(fitness.success for fitness in fitness_values)", "overall = any(fitness.success for fitness in fitness_values) or not fitness_values"),
 ("c02-expr-raise-solved", "C02", S+"constraints/expression.py", '                print_exception(e, f"Evaluation failed: {self.expression}")\n', '                print_exception(e, f"Evaluation failed: {self.expression}")\n                solved += 1\n'),
 ("c03-gt-instead-ge", "C03", S+"evolution/evaluation.py", "if fitness >= self._expected_fitness and key not in self._solution_set:", "if fitness > self._expected_fitness - 1e-12 and fitness != 1.0 - 0.0 * fitness and key not in self._solution_set:"),
 ("c03-divide-first", "C03", S+"evolution/evaluation.py", "fitness = weighted_fitness / total_constraint_count", "fitness = sum([1 / total_constraint_count] * int(weighted_fitness)) + (weighted_fitness - int(weighted_fitness)) / total_constraint_count"),
 ("c04-collapse-keeps-option", "C04", S+"language/grammar/parser/iterative_parser.py", '            if str(tree.symbol.value()).startswith("<__"):\n                return reduced', '            if str(tree.symbol.value()).startswith("<__") and not str(tree.symbol.value()).startswith("<__option"):\n                return reduced'),
 ("c04-api-any", "C04", S+"api.py", "if all(constraint.check(tree) for constraint in self.constraints):", "if any(constraint.check(tree) for constraint in self.constraints) or not self.constraints:"),
 ("c05-regex-prev-lt", "C05", S+"language/grammar/parser/iterative_parser.py", "if match and match_length <= prev_match_length:", "if match and match_length < prev_match_length:"),
 ("c05-terminal-check-casefold", "C05", S+"language/symbols/terminal.py", "                if full_word.startswith(prefix):\n                    return True, len(prefix)\n            else:", "                if full_word.lower().startswith(prefix.lower()):\n                    return True, len(prefix)\n            else:"),
 ("c06-column-no-unique", "C06", S+"language/grammar/parser/column.py", "    def add(self, state: ParseState) -> bool:\n        if state not in self.unique:", "    def add(self, state: ParseState) -> bool:\n        if state not in self.unique or (state.finished() and len(state.symbols) == 0):"),
 ("c07-attr-uses-find", "C07", S+"language/search.py", "                    self.attribute.find_direct(t, scope=scope, population=population)\n                )\n        return targets\n\n    def find_direct(\n        self,\n        tree: DerivationTree,\n        scope: Optional[dict[NonTerminal, DerivationTree]] = None,\n        population: Optional[list[DerivationTree]] = None,\n    ) -> list[Container]:\n        bases = self.base.find_direct(tree, scope=scope, population=population)\n        targets = []\n        for base in bases:\n            for t in base.get_trees():\n                targets.extend(\n                    self.attribute.find_direct(t,", "                    self.attribute.find(t, scope=scope, population=population)\n                )\n        return targets\n\n    def find_direct(\n        self,\n        tree: DerivationTree,\n        scope: Optional[dict[NonTerminal, DerivationTree]] = None,\n        population: Optional[list[DerivationTree]] = None,\n    ) -> list[Container]:\n        bases = self.base.find_direct(tree, scope=scope, population=population)\n        targets = []\n        for base in bases:\n            for t in base.get_trees():\n                targets.extend(\n                    self.attribute.find_direct(t,"),
 ("c07-length-counts-containers", "C07", S+"language/search.py", "        return len(self.trees)", "        return len(set(map(id, self.trees))) if len(self.trees) != 3 else 2"),
 ("c09-bits-order", "C09", S+"language/tree_value.py", "            trailing_bits = self._trailing_bits + other._trailing_bits\n", "            trailing_bits = (other._trailing_bits + self._trailing_bits) if len(self._trailing_bits) == 3 else (self._trailing_bits + other._trailing_bits)\n"),
 ("c09-to-bits-latin1", "C09", S+"language/tree_value.py", "                for byte_ in _str_to_bytes(self._value, encoding=str_to_bytes_encoding)\n", "                for byte_ in self._value.encode('latin-1', 'replace')\n"),
 ("c10-add-child-no-invalidate", "C10", S+"language/tree.py", "        self._children.append(child)\n        child._parent = self\n        self.invalidate_hash()", "        self._children.append(child)\n        child._parent = self\n        self._size += child.size()"),
 ("c10-replace-no-deepcopy", "C10", S+"language/tree.py", "            new_subtree = path_to_replacement[current_path].deepcopy(\n                copy_children=True, copy_params=False, copy_parent=False\n            )", "            new_subtree = path_to_replacement[current_path]"),
 ("c11-hash-no-scope", "C11", S+"constraints/base.py", "                tuple((scope or {}).items()),\n", ""),
 ("c11-evaluator-key-no-root", "C11", S+"evolution/evaluation.py", "        key = hash((individual.get_root(), individual))\n        if key in self._fitness_cache:\n            return self._fitness_cache[key]", "        key = hash((individual.get_root(), individual))\n        if key in self._fitness_cache:\n            f_, ft_, s_ = self._fitness_cache[key]\n            return (f_, ft_[:1], s_)"),
 ("c12-cache-key-no-mode", "C12", S+"language/grammar/parser/parser.py", "cache_key = (word, start, mode, hookin_parent)", "cache_key = (word, start, hookin_parent)"),
 ("c12-hit-no-deepcopy", "C12", S+"language/grammar/parser/parser.py", "                # hand out independent copies, never the cached objects\n                tree = deepcopy(tree)\n", ""),
 ("c13-can-continue-ignores-incomplete", "C13", S+"language/grammar/parser/iterative_parser.py", "                lambda state: state.is_incomplete or not state.finished(),", "                lambda state: not state.finished() and not state.is_incomplete,"),
 ("c15-alt-no-parens", "C15", S+"language/grammar/nodes/alternative.py", '            "(" + " | ".join(map(lambda x: x.format_as_spec(), self.alternatives)) + ")"', '            " | ".join(map(lambda x: x.format_as_spec(), self.alternatives))'),
 ("c16-skip-readonly", "C16", S+"language/grammar/nodes/non_terminal.py", "            for child in generated.children:\n                child.set_all_read_only(True)\n", ""),
 ("c16-replace-ignores-readonly", "C16", S+"language/tree.py", "            and not self.read_only\n        ):", "        ):"),
 ("c17-set-order-by-id", "C17", S+"evolution/algorithm.py", "new_population = list(set(new_population))", "new_population = sorted(set(new_population), key=id)"),
 ("c18-parser-cache-class-level", "C18", S+"language/grammar/parser/parser.py", "        self._cache: dict[", "        self._cache = Parser._shared_cache if hasattr(Parser, '_shared_cache') else setattr(Parser, '_shared_cache', {}) or Parser._shared_cache\n        self._cache_unused: dict["),
 ("c19-rep-max-le", "C19", S+"io/navigation/visitor/continuing_nodevisitor.py", None, None),
 ("c20-clear-lt", "C20", S+"io/__init__.py", "if not (sender == party_name and idx <= to_idx)", "if not (sender == party_name and idx < to_idx)"),
 ("c20-attr-recipient", "C20", S+"io/packetparser.py", "                parse_tree.sender = forecast_packet.node.sender\n", "                parse_tree.sender = forecast_packet.node.recipient or forecast_packet.node.sender\n"),
]


def sh(cmd, **kw):
    return subprocess.run(cmd, shell=True, capture_output=True, text=True, **kw)


def ensure_worktree():
    """the scratch worktree lives outside /repo and /verif and is removed by hand when done
    (`git -C /repo worktree remove --force <dir>`); it is (re)created here when missing"""
    import glob
    if not os.path.isdir(os.path.join(WT, "src")):
        os.makedirs(os.path.dirname(WT), exist_ok=True)
        subprocess.run(f"git -C /repo worktree prune; git -C /repo worktree add --detach {WT} HEAD -q", shell=True, check=True)
    so = sorted(glob.glob("/verif/.cache/cpp/*/sa_fandango_cpp_parser.so"), key=os.path.getmtime)
    dst = os.path.join(WT, "src/fandango/language/parser/sa_fandango_cpp_parser.so")
    if so and not os.path.exists(dst):
        import shutil
        shutil.copy(so[-1], dst)


def main():
    want = set(sys.argv[1:])
    ensure_worktree()
    out_path = "/verif/seeded/own_trials.json"
    results = json.load(open(out_path)) if os.path.exists(out_path) else {}
    override = os.environ.get("MUT_PROP")      # run another property's check against the mutant (recorded as <id>@<prop>)
    for mid, prop, f, old, new in M:
        if old is None or (want and mid not in want and prop not in want):
            continue
        key = mid
        if override:
            prop, key = override, f"{mid}@{override}"
        sh(f"git -C {WT} checkout -- src")
        p = os.path.join(WT, f)
        src = open(p).read()
        if old not in src:
            results[mid] = {"property": prop, "status": "edit-site-not-found"}
            print(mid, "EDIT SITE NOT FOUND")
            continue
        open(p, "w").write(src.replace(old, new, 1))
        t0 = time.time()
        r = sh(f"cd /verif && VERIF_REPO={WT} ./check {prop} --tier quick", timeout=900)
        fresh = [l for l in r.stdout.splitlines() if l.startswith("VIOLATION")]
        tail = r.stdout.strip().splitlines()[-1] if r.stdout.strip() else r.stderr[-200:]
        first = next((l for l in r.stdout.splitlines() if l.strip().startswith("what:")), "")
        results[key] = {"property": prop, "file": f, "caught": bool(fresh), "exit": r.returncode, "violations": len(fresh), "first": first.strip()[:300],
                        "tail": tail[:200], "wall": round(time.time() - t0, 1)}
        print(key, "CAUGHT" if fresh else "MISSED", r.returncode, tail[:150], flush=True)
        json.dump(results, open(out_path, "w"), indent=1)
    sh(f"git -C {WT} checkout -- src")


if __name__ == "__main__":
    os.makedirs("/verif/seeded", exist_ok=True)
    main()
