#!/venv/bin/python
"""Regenerates MANIFEST.json from the table below (keeps it schema-valid)."""
import json
import os
import subprocess

HERE = os.path.dirname(os.path.dirname(os.path.abspath(__file__)))

# id -> (category, technique, level text, level note, design ref)
CHECKS = {
    "C03": ("exploration",
            "runtime monitor on Evaluator.evaluate_individual (yield observed vs. per-class verdicts) over an exhaustively enumerated (h,r,order) grid + end-to-end fuzz runs",
            "Every (h, r) in [0..12]^2 (quick) / [0..16]^2 (thorough) x declaration orders is executed against the real evaluator with a tree that satisfies all constraints by construction; the run must yield it. The online accept-monitor additionally watches every organic evaluation of the end-to-end runs. A second grid family cycles its constraints through every constraint form (comparisons with and without matches, expressions, both quantifier styles, and/or). Finite grid enumerated completely; beyond the grid only what was observed.",
            "Trusts: CPython float arithmetic; the construction of the satisfying tree (parse of a satisfying word); for the online monitor, the evaluator's own per-class verdicts.",
            "DESIGN.md §2 C03"),
}

CHECKS.update({
    "C01": ("exploration",
            "runtime monitors (wrappers on Grammar.fuzz and the initial-population / crossover / mutation / repair operators) + reference derivation checker and recogniser as oracle",
            "Every tree the producing operators hand out during plain fuzzing and evolutionary search (not only solutions) is judged by an independent derivation checker built from /verif's own grammar AST (or from the node objects for the ~80 harvested specs) and its word by an independent recogniser. Holds on the K executions reported in the evidence (operators and grammar features seen are listed there).",
            "Trusts vf/ref/grammar_model.py; computed repetition counts are read as {0,}; Gmutator settings never set; exrex/regex are part of the observed system.",
            "DESIGN.md §2 C01"),
    "C04": ("exploration",
            "runtime oracle on every tree yielded by parse / parse_forest / Fandango.parse: reference derivation checker, reference serialisation == input, reference recogniser; inputs include near misses; request histories on one object",
            "Soundness is judged per yielded tree (no reference forest needed, ambiguity cannot alarm). Grammars incl. bit grammars whose words are not whole bytes. Inputs: reference-language words, fuzzed words, near misses (deletions, insertions, case variants, neighbouring code points), noise, other start symbols; per input the order of first-tree / forest / prefix-mode-then-complete requests on the shared object varies; API level with one to three word-level constraints whose truth the harness computes from the input.",
            "Trusts the reference model; abstains on the Latin-1/UTF-8 reading of text terminals inside binary grammars (C05/C09 decide that).",
            "DESIGN.md §2 C04"),
    "C05": ("exploration",
            "differential runtime check: reference enumerator of L(G) -> real parser (completeness); generate -> serialise as the CLI does -> Fandango.parse (round trip); counterfactual mechanism classification of failures",
            "Every word of the reference language up to the bound (<= 400 per start symbol per grammar) is parsed by the real parser; every fuzzed tree / emitted solution of generated and harvested specs is written out the way the CLI does and parsed back. Failures are attributed by building variant languages in which the suspected construct is unusable.",
            "Grammar class of the statement enforced by construction (regex terminals delimited); harvested grammars with regexes are reported separately; the listed known findings are broad mechanism classes (see known_findings.json).",
            "DESIGN.md §2 C05"),
    "C06": ("exploration",
            "logical step clock on Column.add (admitted Earley states, reset at every output) with a budget and divergence witnesses (growing-children core / duplicate state); second logical clock (sys.monitoring back-edges of the parser package taken without an admission, return or yield); exhaustive short inputs over the grammar alphabet",
            "Liveness restated as bounded progress: a request is violating when > 8000 states are admitted without an output AND a pumping/duplicate witness exists; or one loop back-edge is taken more than 100000 + 20 x (states admitted + input length) times inside one activation while nothing is admitted; budget without witness is inconclusive. Grammar generator emphasises nullable symbols under repetitions, recursion, unit cycles, computed repetitions under every list shape.",
            "A finite run cannot decide unbounded termination; finitely ambiguous grammars of the generated size need far fewer admissions (reported).",
            "DESIGN.md §2 C06"),
    "C13": ("exploration",
            "history checker over the real IterativeParser: every composition of each input (all 2^(n-1) for n <= 9/11) is fed fragment by fragment; complete-parse sets compared with the at-once run; can_continue() judged against reference-language extensions",
            "Exhaustive over compositions for short inputs; inputs inside and outside the language; text/bytes/bit-level grammars with cuts inside literals, regex matches, multi-byte characters and bit runs; plus packetparser-style single-symbol feeding with suspended generators.",
            "can_continue()==False is refuted only by an extension found by the bounded reference enumerator (sound, incomplete).",
            "DESIGN.md §2 C13"),
})

CHECKS.update({
    "C09": ("exploration",
            "reference-model monitor: random leaf sequences x random bracketings x all 24 orders of str/bytes/to_bits/int, on fresh copies, on one tree and on one value object; value -> in-place edit -> value histories on the tree, subtrees, index and slice views; before/after snapshots of trees and terminal value objects",
            "Associativity (bracketing independence), agreement of the three views with an independent reference serialisation (vf/ref/treeval.py), order independence and absence of side effects are observed on every generated (leaf sequence, bracketing).",
            "int() only for order/bracketing independence; unaligned sequences only for 'same outcome for every bracketing, no mutation'.",
            "DESIGN.md §2 C09"),
    "C10": ("exploration",
            "model-based history checking: random histories of public tree operations and evolutionary operators on real grammars; invariant walker (size/hash/==/parent vs from-scratch rebuild) after every step over all live trees; before/after dumps and in-place perturbation of outputs for aliasing; retained solutions re-dumped during real search runs",
            "Every step of every history (including edits that are taken back, and trees with generator source trees) is followed by a full walk of all trees the caller still holds. Operation and operator counts are in the evidence.",
            "ParserDerivationTree internals are not walked; hash collisions only where they occur.",
            "DESIGN.md §2 C10"),
    "C12": ("exploration",
            "history checker: random histories of parse-type requests (first tree, full / abandoned forests, modes, start symbols, include_controlflow, API parse, interleaved fuzz runs, in-place edits of returned trees) on one spec object - incl. fragment parses hooked into a context tree and the same inputs as text and as bytes - each result compared with the same request on a fresh spec object",
            "Results are compared as sequences of canonical dumps (repetition tags up to renaming of iteration numbers).",
            "A fresh object built from the same text is the reference.",
            "DESIGN.md §2 C12"),
})

CHECKS.update({
    "C02": ("exploration",
            "runtime oracle on every emitted solution: reference constraint semantics over /verif's own constraint AST + recomputed computed-repetition counts; fresh spec object (parsed again, empty caches) for harvested specs; production mode with the swallowed-exception path counted",
            "Each solution handed out by fuzz() is re-judged by evaluators that share no state with the search. Specs include constraints that raise on part of the language, quantifiers, selectors, extra constraints, lazy and eager construction.",
            "C07's known deviations are not generated; index selectors out of range are an abstention.",
            "DESIGN.md §2 C02"),
    "C07": ("exploration",
            "differential runtime check: real constraint.check (eager and lazy spec) vs. reference semantics on (grammar, tree, constraint) triples; counterfactual attribution of mismatches to listed findings",
            "Constraints are generated as /verif AST + text (comparisons, and/or, `.`, `..`, [i], [i:j], *<A>, |<A>|, any/all, exists/forall, raising sub-expressions); trees from fuzzing and from parsing fixed words.",
            "The Python expression itself is evaluated by CPython on the real nodes; shapes the docs are silent on (index out of range, quantifying over slices, `*<a>[i]`, implication) are abstentions.",
            "DESIGN.md §2 C07"),
    "C11": ("exploration",
            "shadow evaluation inside a wrapper of Evaluator.evaluate_individual: sampled evaluations (incl. cache hits) are repeated by a brand-new evaluator on cache-cleared constraint objects on a structural copy, and by a third evaluator whose constraint memos never store (logical budget); RNG state saved/restored; plus targeted edit/re-evaluate histories and constraint objects asked directly twice",
            "Compared with the brand-new evaluation: fitness (exact float), verdict, failing parts as multiset of (path, symbol, cause); with the unmemoised one: fitness and verdict.",
            "Suggestions are not compared; soft-constraint specs excluded.",
            "DESIGN.md §2 C11"),
})

CHECKS.update({
    "C08": ("translation_validation",
            "translation validation on observed executions: the exact code string Fandango executes (captured at FandangoSpec.run_code / constraint, generator and bound expressions) is compared, as AST, with CPython's parse of the source text",
            "Programs: construct table, every combination of parameter kinds for def and lambda, ~8000 statements harvested from the repository's and the standard library's Python files, sub-expressions spliced with symbol references in constraint / generator / repetition-bound positions. Every AST difference must be explained by a listed finding.",
            "CPython's ast module is the reference; rejection with an error is allowed by the statement and only counted.",
            "DESIGN.md §2 C08"),
})

CHECKS.update({
    "C15": ("exploration",
            "differential runtime check on the real printer/reader pair: S -> str(parse_content(S)) -> re-read S'; rule structure in normal form, bounded reference languages, constraint verdicts on parse trees of sampled words, generator calls and arguments",
            "Generated specs (postfix operators on groups, nested groups, open and computed bounds, quoting/escaping of text, bytes and regex literals, bits, every constraint form incl. generated index/slice/path selector forms and random formulas) and all harvested specs.",
            "Language equality beyond structural equality is decided on bounded word sets.",
            "DESIGN.md §2 C15"),
})

CHECKS.update({
    "C14": ("translation_validation",
            "differential translation validation: every text is read by the C++ front end (rebuilt from the working tree) and by the pure-Python front end in one process; accept/reject and the full products (rules, generators, constraints, executed Python text, mode) are compared",
            "Corpus: harvested specs, generated specs, the Python construct table and 18 kinds of syntactic perturbation (valid and invalid texts).",
            "Error messages / token offsets are representation and not compared; products are built by the same visitors over either parse tree.",
            "DESIGN.md §2 C14"),
})

CHECKS.update({
    "C16": ("exploration",
            "event-log checker: wrapper on Grammar.generate_string records (symbol, argument texts, returned value | exception); every generator-defined node of every operator output and emitted solution must match a logged return for the sources recorded with it; high-entropy generator values",
            "Templates: constant, random, dependent (one / two arguments), chained, inside computed repetitions, misfitting generators; constraints push mutation, crossover and repair onto generated fields and their arguments.",
            "Parsed trees (sources derived through inverse generators) are outside the text oracle.",
            "DESIGN.md §2 C16"),
    "C17": ("exploration",
            "paired executions in fresh interpreters: identical configuration, second process perturbed (heap layout / ids, clocks, cwd, import order, environment); event logs (solutions in order, parse-result dumps, CLI output files) compared byte for byte",
            "Python API and real CLI; harvested deterministic specs, generated specs with constraints (incl. hard disjunctions over different symbols run for 15-30 generations), generators, computed repetitions; settings grid.",
            "Specs whose own Python is nondeterministic are excluded by a static scan; PYTHONHASHSEED is part of the configuration.",
            "DESIGN.md §2 C17"),
    "C18": ("exploration",
            "paired executions: B alone in a fresh process vs. B after activity on other spec objects A in the same process; event logs compared; global-limit trace recorded; counterfactual attribution by resetting the suspected global before B",
            "A: hard-to-solve specs that drive the adaptive tuner, computed repetitions, generators, parsing; B: open-ended and bounded repetitions, constrained specs, parse-only usage; chains of up to three A instances, which also parse B's own inputs; the same spec text loaded with other options; file specs in different directories including same-named files; protocol-mode pairs whose specs define party classes with equal or different names.",
            "B passes random_seed itself.",
            "DESIGN.md §2 C18"),
    "C19": ("exploration",
            "exhaustive (depth-bounded, fan-out sampled) walk of reachable message histories through the real PacketForecaster with every mounting path; options and completeness compared with a Brzozowski-derivative automaton built from the UNSLICED grammar's node objects, sliced by the reference itself according to the route taken (party list: by sender; init_io: messages between uncontrolled parties); histories produced by prefix-mode parsing of message texts (party annotations from the parse); single-branch chains past repetition bounds with a lowered cap; counterfactual / lenient-automaton attribution",
            "Generated protocol grammars (alternatives, options, all repetition forms, nesting, reused messages, message types shared between recipients/senders, 2-4 parties, external parties, slices) + tests/resources/forecaster.fan.",
            "Recursive protocol grammars and nullable bodies under repetitions are not generated.",
            "DESIGN.md §2 C19"),
})

CHECKS.update({
    "C20": ("fault_enumeration",
            "offline checkers over a recorded event log (one lock, one sequence number around the real FandangoIO.transmit / add_receive / clear_by_party / reset_parties) plus the yielded interaction tree: prefix validity (message automaton + derivation checker), attribution, per-channel conservation (delivered = consumed in order + buffered), every consumption is exactly one message of that sender, exactly-once transmission, constraints on sent messages, no misbehaving remote message accepted",
            "In-process protocol runs against a scripted peer (threads): valid / wrong type / constraint-violating / truncated / silent / unsolicited replies, random fragmentations with injected delays, one or two concurrently answering external parties, back-to-back messages in one chunk, a fandango message that must echo a recorded remote one, text and binary messages.",
            "The peer lives in the same process; a run ended by the harness watchdog is inconclusive.",
            "DESIGN.md §2 C20"),
})

NOT_YET = {}


def main():
    props = [json.loads(l) for l in open(os.path.join(HERE, "properties.jsonl"))]
    na_path = os.path.join(HERE, "tools", "not_applicable.json")
    na = json.load(open(na_path)) if os.path.exists(na_path) else {}
    checks = []
    not_applicable = []
    for p in props:
        pid = p["id"]
        if pid in CHECKS:
            cat, tech, text, note, ref = CHECKS[pid]
            checks.append({
                "property_id": pid,
                "quick_cmd": f"./check {pid} --tier quick",
                "thorough_cmd": f"./check {pid} --tier thorough",
                "evidence_file": f"evidence/{pid}.json",
                "replay_cmd_template": f"./check {pid} --replay {{path}}",
                "engine": "vf-runtime-monitors",
                "level_claimed": {"category": cat, "text": text, "design_ref": ref},
                "level_note": note,
                "technique": tech,
            })
        else:
            not_applicable.append({"property_id": pid, "reason": na.get(pid, "check not built yet in this round (runtime-monitoring design exists in DESIGN.md); not claimed until its monitor runs silent on the unchanged tree")})
    head = subprocess.run(["git", "-C", os.environ.get("VERIF_REPO", "/repo"), "log", "--format=%H %s", "-n", "30"], capture_output=True, text=True).stdout
    manifest = {
        "version": 1,
        "setup_cmd": "./setup.sh",
        "hooks": {
            "guard": "FANDANGO_VERIF",
            "enable": "No source hooks: monitors are installed from /verif by wrapping the real functions at import time in the harness process (vf/hooks.py, vf/monitors/*); FANDANGO_VERIF=1 is set by vf/bootstrap.py and is a no-op for the repository. Checks import /repo/src directly (PYTHONPATH) and rebuild the C++ front end from the working tree (vf/cppbuild.py).",
            "baseline_off_cmd": "cd /repo && PYTHONPATH=/repo/src /venv/bin/python -m pytest -ra -q -p no:cacheprovider --timeout=900 --continue-on-collection-errors",
            "source_commits": [],
            "add_only": True,
        },
        "engines": [
            {"name": "vf-runtime-monitors", "path": "vf/", "serves_properties": sorted(CHECKS),
             "kind_free_text": "subprocess-sharded workload runner; wrappers on the real fandango functions; reference models under vf/ref; known-finding matching by mechanism key"},
        ],
        "checks": checks,
        "not_applicable": not_applicable,
        "notes": "Technique family: runtime monitoring. Every check executes the code in /repo/src (never the site-packages copy) in production mode (FANDANGO_RAISE_ALL_EXCEPTIONS unset). Exit 0 held on observed, 1 violation, 2 inconclusive. Known findings: known_findings.json.",
    }
    with open(os.path.join(HERE, "MANIFEST.json"), "w") as f:
        json.dump(manifest, f, indent=1)
    print("checks:", [c["property_id"] for c in checks], "not_applicable:", len(not_applicable))


if __name__ == "__main__":
    main()
