#!/venv/bin/python
"""Regenerates MANIFEST.json from the table below (keeps it schema-valid)."""
import json
import os
import subprocess

HERE = os.path.dirname(os.path.dirname(os.path.abspath(__file__)))

# id -> (category, technique, level text, level note, design ref)
CHECKS = {
    "C03": ("exploration",
            "runtime monitor on Evaluator.evaluate_individual (yield observed vs. per-class verdicts) over an exhaustively enumerated (h,r,order) grid + end-to-end fuzz runs",
            "Every (h, r) in [0..12]^2 (quick) / [0..16]^2 (thorough) x declaration orders is executed against the real evaluator with a tree that satisfies all constraints by construction; the run must yield it. The online accept-monitor additionally watches every organic evaluation of the end-to-end runs. Finite grid enumerated completely; beyond the grid only what was observed.",
            "Trusts: CPython float arithmetic; the construction of the satisfying tree (parse of a satisfying word); for the online monitor, the evaluator's own per-class verdicts.",
            "DESIGN.md §2 C03"),
}

NOT_YET = {}


def main():
    props = [json.loads(l) for l in open(os.path.join(HERE, "properties.jsonl"))]
    na_path = os.path.join(HERE, "tools", "not_applicable.json")
    na = json.load(open(na_path)) if os.path.exists(na_path) else {}
    checks = []
    not_applicable = []
    for p in props:
        pid = p["id"]
        if pid in CHECKS:
            cat, tech, text, note, ref = CHECKS[pid]
            checks.append({
                "property_id": pid,
                "quick_cmd": f"./check {pid} --tier quick",
                "thorough_cmd": f"./check {pid} --tier thorough",
                "evidence_file": f"evidence/{pid}.json",
                "replay_cmd_template": f"./check {pid} --replay {{path}}",
                "engine": "vf-runtime-monitors",
                "level_claimed": {"category": cat, "text": text, "design_ref": ref},
                "level_note": note,
                "technique": tech,
            })
        else:
            not_applicable.append({"property_id": pid, "reason": na.get(pid, "check not built yet in this round (runtime-monitoring design exists in DESIGN.md); not claimed until its monitor runs silent on the unchanged tree")})
    head = subprocess.run(["git", "-C", os.environ.get("VERIF_REPO", "/repo"), "log", "--format=%H %s", "-n", "30"], capture_output=True, text=True).stdout
    manifest = {
        "version": 1,
        "setup_cmd": "./setup.sh",
        "hooks": {
            "guard": "FANDANGO_VERIF",
            "enable": "No source hooks: monitors are installed from /verif by wrapping the real functions at import time in the harness process (vf/hooks.py, vf/monitors/*); FANDANGO_VERIF=1 is set by vf/bootstrap.py and is a no-op for the repository. Checks import /repo/src directly (PYTHONPATH) and rebuild the C++ front end from the working tree (vf/cppbuild.py).",
            "baseline_off_cmd": "cd /repo && PYTHONPATH=/repo/src /venv/bin/python -m pytest -ra -q -p no:cacheprovider --timeout=900 --continue-on-collection-errors",
            "source_commits": [],
            "add_only": True,
        },
        "engines": [
            {"name": "vf-runtime-monitors", "path": "vf/", "serves_properties": sorted(CHECKS),
             "kind_free_text": "subprocess-sharded workload runner; wrappers on the real fandango functions; reference models under vf/ref; known-finding matching by mechanism key"},
        ],
        "checks": checks,
        "not_applicable": not_applicable,
        "notes": "Technique family: runtime monitoring. Every check executes the code in /repo/src (never the site-packages copy) in production mode (FANDANGO_RAISE_ALL_EXCEPTIONS unset). Exit 0 held on observed, 1 violation, 2 inconclusive. Known findings: known_findings.json.",
    }
    with open(os.path.join(HERE, "MANIFEST.json"), "w") as f:
        json.dump(manifest, f, indent=1)
    print("checks:", [c["property_id"] for c in checks], "not_applicable:", len(not_applicable))


if __name__ == "__main__":
    main()
