import sys, os, logging, itertools, signal
sys.path.insert(0, "/repo/src")
os.environ.pop("FANDANGO_RAISE_ALL_EXCEPTIONS", None)
from fandango import Fandango
from fandango.language.grammar.parser.column import Column
class Budget(Exception): pass
CNT = {"n": 0, "cores": {}}
orig_add = Column.add
LIMIT = 20000
def add(self, state):
    r = orig_add(self, state)
    if r:
        CNT["n"] += 1
        core = (id(self), state.nonterminal, state.position, state.symbols, state._dot)
        c = CNT["cores"].get(core)
        if c is None: CNT["cores"][core] = [1, len(state.children)]
        else:
            c[0] += 1
            c[1] = max(c[1], len(state.children))
        if CNT["n"] > LIMIT: raise Budget()
    return r
Column.add = add
specs = {
 "opt_under_plus": "<start> ::= <a>+\n<a> ::= 'x'?\n",
 "opt_under_star": "<start> ::= <a>*\n<a> ::= 'x'?\n",
 "plain_star": "<start> ::= <a>*\n<a> ::= 'x' | 'y'\n",
 "ambig": "<start> ::= <a> <a> <a>\n<a> ::= 'x' | 'xx' | 'xxx' | ''\n",
 "nested": "<start> ::= (<a>{1,3} ';')+\n<a> ::= 'x'+ ','?\n",
 "leftrec": "<start> ::= <start> '+' <t> | <t>\n<t> ::= 'x' | '(' <start> ')'\n",
 "expr": "<start> ::= <e>\n<e> ::= <e> '+' <e> | 'x'\n",
}
for name, s in specs.items():
    g = Fandango(s, use_stdlib=False, logging_level=logging.CRITICAL).grammar
    mx = 0; worst = None; viol = []
    alphabet = sorted(set(c for c in s if c in "xy;,+()"))
    for n in range(0, 6):
        for w in map("".join, itertools.product(alphabet, repeat=n)):
            CNT["n"] = 0; CNT["cores"] = {}
            try:
                k = 0
                for t in g.parse_forest(w):
                    k += 1
                    if k >= 200: break
                if CNT["n"] > mx: mx = CNT["n"]; worst = (w, k)
            except Budget:
                top = max(CNT["cores"].values(), key=lambda c: c[0])
                viol.append((w, top))
                if len(viol) > 2: break
        if len(viol) > 2: break
    print(name, "max admissions", mx, worst, "budget-exceeded", viol[:2])
