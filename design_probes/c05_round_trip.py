import sys, os
sys.path.insert(0, "/repo/src")
os.environ.pop("FANDANGO_RAISE_ALL_EXCEPTIONS", None)
from fandango import Fandango
import logging, random
specs = {
 "emptyregex": "<start> ::= r'[a-c]+' 'x' r'\\d*'\n",
 "emptyregex_end": "<start> ::= 'x' <d>\n<d> ::= r'\\d*'\n",
 "emptyregex_only": "<start> ::= r'a*'\n",
 "optional": "<start> ::= 'a'? 'b'* ('c' | 'd'){2,3} <e>\n<e> ::= 'e' | ''\n",
 "bits": "<start> ::= <b>{8} <x>\n<b> ::= 0 | 1\n<x> ::= b'\\x00' | 'é'\n",
 "bytesregex": "<start> ::= rb'[\\x80-\\xff]{2}' b'\\n'\n",
 "nested": "<start> ::= (<a>{1,2} ';')+\n<a> ::= <d>+ (',' <d>+)?\n<d> ::= r'[0-9]'\n",
 "unicode": "<start> ::= r'[à-ÿ]{1,3}' 'ß'\n",
 "emptystr": "<start> ::= '' 'a' ''\n",
 "nul": "<start> ::= r'.' '\\x00'\n",
}
for name, s in specs.items():
    f = Fandango(s, use_stdlib=False, logging_level=logging.CRITICAL)
    random.seed(1)
    fails = 0; n = 0; ex = None
    for i in range(30):
        t = f.grammar.fuzz("<start>", 30)
        w = t.to_bytes() if t.should_be_serialized_to_bytes() else str(t)
        n += 1
        try:
            r = f.grammar.parse(w)
        except Exception as e:
            r = None; ex = e
        if r is None or (r.to_bytes() if isinstance(w, bytes) else str(r)) != w:
            fails += 1
            if fails == 1: print("  e.g.", name, repr(w), "->", r if r is None else repr(str(r)), ex)
    print(name, "fuzzed", n, "roundtrip-fails", fails)
