import sys, os
if os.environ.get("PERTURB"):
    import random as _r, time as _t
    junk = [object() for _ in range(int(os.environ["PERTURB"]) * 1000)]
    junk2 = [[i] for i in range(int(os.environ["PERTURB"]) * 777)]
    _ot, _om = _t.time, _t.monotonic
    _t.time = lambda: _ot() + 1.0e6
    os.chdir("/tmp")
sys.path.insert(0, "/repo/src")
os.environ.pop("FANDANGO_RAISE_ALL_EXCEPTIONS", None)
from fandango import Fandango
import logging, hashlib
fn = sys.argv[1]
s = open(fn).read()
f = Fandango(s, logging_level=logging.CRITICAL, includes=[os.path.dirname(fn)])
sols = f.fuzz(desired_solutions=10, population_size=20, max_generations=8, random_seed=5)
out = [(t.to_bytes() if t.should_be_serialized_to_bytes() else str(t).encode()) for t in sols]
p = []
for o in out[:3]:
    try:
        w = o if sols[0].should_be_serialized_to_bytes() else o.decode()
        p.append(repr([t.to_tree() for t in list(f.parse(w))[:3]]))
    except Exception as e: p.append("EXC " + type(e).__name__)
print(len(out), hashlib.sha256(b"\0".join(out)).hexdigest()[:12], hashlib.sha256("".join(p).encode()).hexdigest()[:12])
