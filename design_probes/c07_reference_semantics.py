import sys, os, logging, itertools, io, contextlib
sys.path.insert(0, "/repo/src")
os.environ.pop("FANDANGO_RAISE_ALL_EXCEPTIONS", None)
from fandango import Fandango
G = "<start> ::= <a> ';' <a>\n<a> ::= <d> <d>? | '(' <a> ')'\n<d> ::= '0'|'1'|'2'|'3'\n"
# reference selectors on real nodes (structure only via .children/.symbol)
def nm(n): return n.symbol.name() if n.symbol.is_non_terminal else None
def all_nodes(t):
    out = [t]
    for c in t.children: out += all_nodes(c)
    return out
def sel_all(t, s): return [n for n in all_nodes(t) if nm(n) == s]
def children_of(ns, s): return [c for n in ns for c in n.children if nm(c) == s]
def desc_of(ns, s): return [x for n in ns for c in n.children for x in all_nodes(c) if nm(x) == s]
def product_all(lists, fn):
    combos = list(itertools.product(*lists))
    if any(len(l) == 0 for l in lists): return True
    for c in combos:
        try:
            if not fn(*c): return False
        except Exception: return False
    return True
cases = {
 "int(<d>) < 3": lambda t: product_all([sel_all(t, "<d>")], lambda d: int(d) < 3),
 "<a>.<d> == '1'": lambda t: product_all([children_of(sel_all(t, "<a>"), "<d>")], lambda d: d == '1'),
 "<start>.<a>.<d> != '0'": lambda t: product_all([children_of(children_of(sel_all(t, "<start>"), "<a>"), "<d>")], lambda d: d != '0'),
 "<start>.<a>..<d> != '0'": lambda t: product_all([desc_of(children_of(sel_all(t, "<start>"), "<a>"), "<d>")], lambda d: d != '0'),
 "<a>..<a>..<d> != '3'": lambda t: product_all([desc_of(desc_of(sel_all(t, "<a>"), "<a>"), "<d>")], lambda d: d != '3'),
 "<a>[0] != '2'": lambda t: product_all([[n.children[0] for n in sel_all(t, "<a>")]], lambda x: x != '2'),
 "str(<a>[0:2]) != '11'": lambda t: product_all([sel_all(t, "<a>")], lambda a: "".join(str(c) for c in a.children[0:2]) != '11'),
 "|<d>| >= 3": lambda t: len(sel_all(t, "<d>")) >= 3,
 "int(<d>) + int(<d>) < 6": lambda t: product_all([sel_all(t, "<d>"), sel_all(t, "<d>")], lambda x, y: int(x) + int(y) < 6),
 "any(int(x) > 2 for x in *<d>)": lambda t: any(int(x) > 2 for x in sel_all(t, "<d>")),
 "all(int(x) > 0 for x in *<a>.<d>)": lambda t: all(int(x) > 0 for x in children_of(sel_all(t, "<a>"), "<d>")),
 "forall <x> in <a>: int(<x>.<d>) > 0": lambda t: all(product_all([children_of([x], "<d>")], lambda d: int(d) > 0) for x in sel_all(t, "<a>")),
 "exists <x> in <start>.<a>: str(<x>) == '1'": lambda t: any(str(x) == '1' for x in children_of(sel_all(t, "<start>"), "<a>")),
 "int(<d>) < 2 or int(<d>) > 2": lambda t: product_all([sel_all(t, "<d>")], lambda d: int(d) < 2) or product_all([sel_all(t, "<d>")], lambda d: int(d) > 2),
 "int(<d>) > 0 and 6 // int(<d>) > 1": lambda t: product_all([sel_all(t, "<d>")], lambda d: int(d) > 0) and product_all([sel_all(t, "<d>")], lambda d: 6 // int(d) > 1),
 "6 // int(<d>) > 1": lambda t: product_all([sel_all(t, "<d>")], lambda d: 6 // int(d) > 1),
 "not (6 // int(<d>) > 1)": lambda t: product_all([sel_all(t, "<d>")], lambda d: not (6 // int(d) > 1)),
 "len(str(<start>)) > 4 -> int(<d>) > 0": None,
}
base = Fandango(G, use_stdlib=False, logging_level=logging.CRITICAL)
words = ["1;1", "12;3", "0;00", "(1);2", "((31));(2)", "3;3", "11;11", "(11);0", "21;12", "2;(3)"]
trees = {w: base.grammar.parse(w) for w in words}
for c, ref in cases.items():
    if ref is None: continue
    res = []
    for lazy in (False, True):
        f = Fandango(G, [c], use_stdlib=False, logging_level=logging.CRITICAL, lazy=lazy)
        err = io.StringIO()
        with contextlib.redirect_stderr(err):
            res.append([f.constraints[0].check(f.grammar.parse(w)) for w in words])
    exp = [ref(trees[w]) for w in words]
    status = "OK  " if res[0] == exp and res[1] == exp else "DIFF"
    print(status, c)
    if status == "DIFF":
        for w, a, b, e in zip(words, res[0], res[1], exp):
            if a != e or b != e: print("      ", w, "eager", a, "lazy", b, "ref", e)
