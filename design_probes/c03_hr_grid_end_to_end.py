import sys, os
sys.path.insert(0, "/repo/src")
os.environ.pop("FANDANGO_RAISE_ALL_EXCEPTIONS", None)
from fandango import Fandango
import logging
def spec(h, r):
    s = "<start> ::= <n> " + " ".join(f"<x{i}>{{int(<n>)}}" for i in range(r)) + "\n"
    s += "<n> ::= '1' | '2'\n"
    for i in range(r):
        s += f"<x{i}> ::= 'a'\n"
    for i in range(h):
        s += f"where len(str(<start>)) >= {i}\n"
    return s
for (h,r) in [(1,0),(0,1),(1,1),(1,5),(5,1),(2,5),(1,4)]:
    f = Fandango(spec(h,r), use_stdlib=False, logging_level=logging.ERROR)
    sols = f.fuzz(desired_solutions=3, max_generations=5, population_size=10, random_seed=1)
    print(h, r, len(sols), [str(s) for s in sols][:3], len(f.constraints))
