import sys, os
sys.path.insert(0, "/repo/src")
os.environ.pop("FANDANGO_RAISE_ALL_EXCEPTIONS", None)
from fandango import Fandango
from fandango.language.grammar.grammar import Grammar
import logging
EV = []
orig = Grammar.generate_string
def hooked(self, symbol="<start>", sources=None):
    srcs, val = orig(self, symbol, sources)
    EV.append((str(symbol), tuple(str(s) for s in srcs), val))
    return srcs, val
Grammar.generate_string = hooked
spec = """
import random
_LOG = []
def gen_id():
    v = str(random.randint(100, 999))
    _LOG.append(('id', v))
    return v
def checksum(p):
    v = str(sum(int(c) for c in str(p)) % 10)
    _LOG.append(('ck', str(p), v))
    return v
<start> ::= <id> ':' <payload> ':' <ck>
<id> ::= <digit>{3} := gen_id()
<payload> ::= <digit>+
<ck> ::= <digit> := checksum(<payload>)
<digit> ::= '0'|'1'|'2'|'3'|'4'|'5'|'6'|'7'|'8'|'9'
where int(<payload>) % 7 == 3
where len(str(<payload>)) >= 3
"""
f = Fandango(spec, use_stdlib=False, logging_level=logging.CRITICAL)
sols = f.fuzz(desired_solutions=20, population_size=20, max_generations=20, random_seed=2)
evset = {(a, b, str(c)) for a, b, c in EV}
bad = 0; nodes = 0
for t in sols:
    for n in t.flatten():
        if n.symbol.is_non_terminal and n.symbol in f.grammar.generators:
            nodes += 1
            key = (n.symbol.name(), tuple(str(s) for s in n.sources), str(n))
            ro = all(c.read_only for c in n.children)
            if key not in evset or not ro:
                bad += 1; print("BAD", str(t)[:40], key[0], key[2], "inev", key in evset, "ro", ro, [c.read_only for c in n.children], n.read_only)
print(len(sols), "solutions", nodes, "gen nodes; bad", bad, "events", len(EV))
