import sys, os
sys.path.insert(0, "/repo/src")
os.environ.pop("FANDANGO_RAISE_ALL_EXCEPTIONS", None)
from fandango.language.tree import DerivationTree as DT
from fandango.language.symbols import Terminal as T, NonTerminal as NT
def leaf(v): return DT(T(v))
def node(name, *ch): return DT(NT(name), list(ch))
a, b, c = node("<a>", leaf("1")), node("<b>", leaf("2")), node("<c>", leaf("3"))
root = node("<s>", a, b, c)
h0 = hash(root)
s = root[0:2]
print("parent of a after slice:", a.parent.symbol.format_as_spec() if a.parent else None, "is root?", a.parent is root)
# edit below a; does root hash update?
a.set_children([leaf("9")])
print("root str", str(root), "hash changed:", hash(root) != h0, "size", root.size())
fresh = node("<s>", node("<a>", leaf("9")), node("<b>", leaf("2")), node("<c>", leaf("3")))
print("equals fresh:", root == fresh, hash(root) == hash(fresh))
# single index
root2 = node("<s>", node("<a>", leaf("1")), node("<b>", leaf("2")))
x = root2[0]; print("index keeps parent:", x.parent is root2)
# selector search with slice through constraint
from fandango import Fandango
import logging
f = Fandango("<start> ::= <d> <d> <d>\n<d> ::= '0' | '1'\nwhere str(<start>[0:2]) != 'zz'\n", use_stdlib=False, logging_level=logging.CRITICAL)
t = f.grammar.parse("010")
ok = f.constraints[0].check(t)
print("after constraint check parents ok:", all(ch.parent is t for ch in t.children))
