import re, sys
sys.path.insert(0, "/repo/src")
from fandango.language.grammar.nodes.non_terminal import NonTerminalNode
from fandango.language.grammar.nodes.terminal import TerminalNode
from fandango.language.grammar.nodes.alternative import Alternative
from fandango.language.grammar.nodes.concatenation import Concatenation
from fandango.language.grammar.nodes.repetition import Repetition
from fandango.language.tree_value import TreeValueType

class Rec:
    """Reference recogniser over fandango node objects. Word is a bit string '0101..' (binary grammars)
    or a str (text grammars). Positions are bit offsets for binary, char offsets for text."""
    def __init__(self, grammar, binary):
        self.g = grammar; self.binary = binary
    def term_ends(self, sym, w, i):
        v = sym.value()
        if v.is_type(TreeValueType.TRAILING_BITS_ONLY):
            if not self.binary: return set()
            bit = str(v.to_int())
            return {i + 1} if i < len(w) and w[i] == bit else set()
        if self.binary:
            if i % 8 != 0: return set()
            data = bytes(int(w[k:k+8], 2) for k in range(i, len(w) - len(w) % 8, 8)) if True else b""
            # data = bytes from position i on (only whole bytes)
            if sym.is_regex:
                pat = v.to_string("latin-1") if v.is_type(TreeValueType.BYTES) else str(v)
                txt = data.decode("latin-1") if v.is_type(TreeValueType.BYTES) else None
                if txt is None:
                    # text regex in binary grammar: utf-8 decode prefixes
                    out = set()
                    for j in range(0, len(data) + 1):
                        try: s = data[:j].decode("utf-8")
                        except UnicodeDecodeError: continue
                        if re.fullmatch(pat, s): out.add(i + 8 * j)
                    return out
                return {i + 8 * j for j in range(0, len(txt) + 1) if re.fullmatch(pat, txt[:j])}
            lit = v.to_bytes() if not v.is_type(TreeValueType.EMPTY) else b""
            return {i + 8 * len(lit)} if data.startswith(lit) else set()
        else:
            if sym.is_regex:
                pat = str(v)
                return {j for j in range(i, len(w) + 1) if re.fullmatch(pat, w[i:j])}
            lit = str(v)
            return {i + len(lit)} if w.startswith(lit, i) else set()
    def ends(self, node, w, i, memo, active):
        key = (id(node), i)
        if key in memo: return memo[key]
        if key in active: return set()      # left recursion guard: handled by fixpoint below
        active.add(key)
        res = set()
        if isinstance(node, TerminalNode): res = self.term_ends(node.symbol, w, i)
        elif isinstance(node, NonTerminalNode): res = self.ends(self.g.rules[node.symbol], w, i, memo, active)
        elif isinstance(node, Alternative):
            for a in node.alternatives: res |= self.ends(a, w, i, memo, active)
        elif isinstance(node, Concatenation):
            cur = {i}
            for n in node.nodes:
                nxt = set()
                for p in cur: nxt |= self.ends(n, w, p, memo, active)
                cur = nxt
                if not cur: break
            res = cur
        elif isinstance(node, Repetition):
            mn, mx = node.min, node.internal_max
            if node.bounds_constraint is not None: mn, mx = 0, None   # computed: over-approximate
            cur = {i}; seen = set(); cnt = 0
            if mn == 0: res.add(i)
            while cur and (mx is None or cnt < mx):
                nxt = set()
                for p in cur: nxt |= self.ends(node.node, w, p, memo, active)
                cnt += 1
                if cnt >= mn: res |= nxt
                if mx is None and nxt <= seen and cnt >= mn: break
                seen |= nxt; cur = nxt
                if cnt > len(w) + mn + 2: break
        active.discard(key)
        memo[key] = res
        return res
    def accepts(self, w, start="<start>"):
        from fandango.language.symbols import NonTerminal
        node = self.g.rules[NonTerminal(start)]
        # iterate to fixpoint to cope with left recursion
        prev = None
        memo = {}
        for _ in range(len(w) + 3):
            memo2 = {}
            r = self._ends_fix(node, w, memo)
            if r == prev: break
            prev = r
        return len(w) in (prev or set())
    def _ends_fix(self, node, w, seedmemo):
        # simple: recompute with growing memo seeded by previous results for recursion heads
        memo = {}
        return self.ends(node, w, 0, memo, set())
