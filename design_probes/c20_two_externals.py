import sys, os, threading, time, types, random
sys.path.insert(0, "/repo/src")
os.environ.pop("FANDANGO_RAISE_ALL_EXCEPTIONS", None)
from fandango import Fandango
from fandango.language.grammar import FuzzingMode
import logging
bridge = types.ModuleType("vf_bridge"); sys.modules["vf_bridge"] = bridge
LOG = []; lock = threading.Lock()
seed = int(sys.argv[1]) if len(sys.argv) > 1 else 0
rng = random.Random(seed)
def deliver(party, sender, text, delay):
    def run():
        i = 0
        while i < len(text):
            k = rng.randint(1, 3)
            frag = text[i:i+k]; i += k
            time.sleep(rng.random() * delay)
            with lock:
                LOG.append(("recv", sender, frag))
                party.receive(frag, sender)
    threading.Thread(target=run, daemon=True).start()
def on_send(party, message, recipient):
    s = str(message)
    with lock: LOG.append(("send", party.party_name, recipient, s))
    ident = s.split()[1]
    # both externals answer concurrently; A's answer must come first in the grammar
    deliver(party, "ExtA", f"A {ident} a{rng.randint(10,99)}\n", 0.01)
    deliver(party, "ExtB", f"B {ident} b{rng.randint(10,99)}\n", 0.01)
bridge.on_send = on_send
spec = """
import vf_bridge
<start> ::= <ex>{2}
<ex> ::= <Fuzzer:req> <ExtA:Fuzzer:ra> <ExtB:Fuzzer:rb>
<req> ::= 'REQ ' <id> '\\n'
<ra> ::= 'A ' <id> ' a' <digit>{2} '\\n'
<rb> ::= 'B ' <id> ' b' <digit>{2} '\\n'
<id> ::= <digit>{3}
<digit> ::= '0'|'1'|'2'|'3'|'4'|'5'|'6'|'7'|'8'|'9'
where forall <e> in <ex>: str(<e>.<ra>.<id>) == str(<e>.<req>.<id>)
where forall <e> in <ex>: str(<e>.<rb>.<id>) == str(<e>.<req>.<id>)

class Fuzzer(FandangoParty):
    def __init__(self):
        super().__init__(connection_mode=ConnectionMode.OPEN)
    def send(self, message, recipient):
        vf_bridge.on_send(self, message, recipient)
class ExtA(FandangoParty):
    def __init__(self):
        super().__init__(connection_mode=ConnectionMode.EXTERNAL)
class ExtB(FandangoParty):
    def __init__(self):
        super().__init__(connection_mode=ConnectionMode.EXTERNAL)
"""
f = Fandango(spec, use_stdlib=False, logging_level=logging.CRITICAL)
t0 = time.time()
try:
    f.init_population(population_size=4, random_seed=seed)
    f.fandango.remote_response_timeout = 3.0
    for t in f.generate_solutions(mode=FuzzingMode.IO):
        msgs = [(m.sender, m.recipient, str(m.msg)) for m in t.protocol_msgs()]
        sentA = "".join(e[2] for e in LOG if e[0] == "recv" and e[1] == "ExtA")
        sentB = "".join(e[2] for e in LOG if e[0] == "recv" and e[1] == "ExtB")
        gotA = "".join(s for (snd, r, s) in msgs if snd == "ExtA")
        gotB = "".join(s for (snd, r, s) in msgs if snd == "ExtB")
        ok = sentA.startswith(gotA) and sentB.startswith(gotB) and len(msgs) == 6
        print("seed", seed, "msgs", len(msgs), "A-ok", sentA.startswith(gotA), "B-ok", sentB.startswith(gotB), "OK" if ok else "PROBLEM", msgs if not ok else "")
        break
except Exception as e:
    print("seed", seed, "EXC", type(e).__name__, str(e)[:300])
