import sys, os
sys.path.insert(0, "/repo/src")
os.environ.pop("FANDANGO_RAISE_ALL_EXCEPTIONS", None)
from fandango import Fandango
from fandango.language.parse.parse_spec import parse_content
import logging
specs = [
 "<start> ::= ('a' 'b')* 'c'\n",
 "<start> ::= ('a' | 'b')+ 'c'\n",
 "<start> ::= 'a'{2,} 'c'\n",
 "<start> ::= 'a'{,3} 'c'\n",
 "<start> ::= ('a' 'b'){2} 'c'\n",
 "<start> ::= ('a' 'b')? 'c'\n",
 "<start> ::= 'it\\'s' \"q\\\"\" 'back\\\\slash' 'nl\\n' 'é' '\\x00'\n",
 "<start> ::= r'[a-z]+\\d' rb'\\x00[\\x01-\\x05]' b'\\xff\\x00'\n",
 "<start> ::= r'it\\'s\"x'\n",
 "<start> ::= 0 1 1 0{4} <b>\n<b> ::= (0|1){2}\n",
 "<start> ::= <n> <a>{int(<n>)}\n<n> ::= '1'|'2'\n<a> ::= 'a'\nwhere int(<n>) > 0\nwhere <start>.<n> == '2' or len(str(<start>)) > 1\nwhere forall <x> in <a>: str(<x>) == 'a'\nwhere all(str(x) == 'a' for x in *<a>)\nwhere |<a>| >= 1\nwhere <start>[0] == '1'\nwhere <start>..<a> == 'a'\n",
 "<start> ::= <a> := 'x' + 'y'\n<a> ::= r'.*'\n",
 "<start> ::= <a> <b>\n<a> ::= <d>+\n<d> ::= '0'|'1'\n<b> ::= <d>+ := str(int(<a>) + 1)\n",
]
for s in specs:
    try:
        sp = parse_content(s, filename="x.fan", use_cache=False)
        out = str(sp)
        print("IN :", s.strip().replace("\n", " ; "))
        print("OUT:", out.strip().replace("\n", " ; "))
        try:
            sp2 = parse_content(out, filename="x.fan", use_cache=False)
            out2 = str(sp2)
            print("RT :", "same-print" if out2 == out else "DIFF " + out2.strip().replace("\n", " ; "))
        except Exception as e:
            print("RT-EXC", type(e).__name__, str(e)[:150])
    except Exception as e:
        print("EXC", s, type(e).__name__, str(e)[:150])
    print()
