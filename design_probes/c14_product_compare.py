import sys, os, glob, re, logging, time
sys.path.insert(0, "/repo/src")
os.environ.pop("FANDANGO_RAISE_ALL_EXCEPTIONS", None)
import fandango
from fandango.language.parse.parse_spec import parse_content
from fandango.language.grammar.nodes.repetition import Repetition
from fandango.language.grammar.nodes.non_terminal import NonTerminalNode
from fandango.language.grammar.nodes.terminal import TerminalNode
IDRE = re.compile(r"___fandango_\d+_(\d+)___")
def ren(s):
    m = {}
    def r(mo):
        k = mo.group(0)
        if k not in m: m[k] = f"__S{len(m)}__"
        return m[k]
    return IDRE.sub(r, s)
def node_dump(n):
    d = [type(n).__name__, getattr(n, "id", None)]
    if isinstance(n, Repetition): d += [n.min, n.internal_max, n.bounds_constraint is not None]
    if isinstance(n, NonTerminalNode): d += [n.symbol.name(), n.sender, n.recipient]
    if isinstance(n, TerminalNode): d += [n.symbol.format_as_spec(), n.symbol.is_regex]
    d.append([node_dump(c) for c in n.children()])
    return d
def cons_dump(c):
    d = {"cls": type(c).__name__, "spec": ren(c.format_as_spec())}
    for attr in ("expression", "_left", "_right", "optimization_goal"):
        if hasattr(c, attr): d[attr] = ren(str(getattr(c, attr)))
    if hasattr(c, "searches"): d["searches"] = sorted((ren(k), type(v).__name__, v.format_as_spec()) for k, v in c.searches.items())
    for attr in ("constraints",):
        if hasattr(c, attr): d[attr] = [cons_dump(x) for x in getattr(c, attr)]
    for attr in ("statement", "antecedent", "consequent"):
        if hasattr(c, attr): d[attr] = cons_dump(getattr(c, attr))
    if hasattr(c, "bound"): d["bound"] = str(c.bound if isinstance(c.bound, str) else c.bound.name())
    if hasattr(c, "expr_data_min"): d["rep"] = (ren(c.expr_data_min[0]), ren(c.expr_data_max[0]), c.repetition_id)
    return d
def product(src, fn):
    sp = parse_content(src, filename=fn, use_cache=False, includes=[os.path.dirname(fn)])
    return {
        "rules": {k.name(): node_dump(v) for k, v in sp.grammar.rules.items()},
        "gens": {k.name(): (ren(g.call), sorted((ren(a), b.format_as_spec()) for a, b in g.nonterminals.items())) for k, g in sp.grammar.generators.items()},
        "cons": [cons_dump(c) for c in sp.constraints],
        "code": sp.code_text,
        "mode": str(sp.grammar.fuzzing_mode),
    }
files = [f for f in sorted(glob.glob("/repo/tests/resources/*.fan") + glob.glob("/repo/docs/*.fan")) if os.path.getsize(f) < 2500][:45]
dis = 0; n = 0
t0 = time.time()
for fn in files:
    src = open(fn).read()
    out = {}
    for p in ("cpp", "python"):
        fandango.Fandango.parser = p
        try: out[p] = ("ok", product(src, fn))
        except Exception as e: out[p] = ("err", type(e).__name__)
    n += 1
    if out["cpp"] != out["python"]:
        dis += 1
        a, b = out["cpp"], out["python"]
        if a[0] == b[0] == "ok":
            keys = [k for k in a[1] if a[1][k] != b[1][k]]
            print("DIS", os.path.basename(fn), keys)
        else: print("DIS", os.path.basename(fn), a[0], b[0], a[1] if a[0]=="err" else "", b[1] if b[0]=="err" else "")
print("files", n, "disagreements", dis, "secs", round(time.time() - t0, 1))
