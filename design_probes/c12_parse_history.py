import sys, os
sys.path.insert(0, "/repo/src")
os.environ.pop("FANDANGO_RAISE_ALL_EXCEPTIONS", None)
from fandango import Fandango
from fandango.language.grammar import ParsingMode
import logging
s = "<start> ::= <a> <a>\n<a> ::= 'x' | 'xx' | 'xxx'\n"
f = Fandango(s, use_stdlib=False, logging_level=logging.ERROR)
g = f.grammar
fresh = [t.to_tree() for t in Fandango(s, use_stdlib=False).grammar.parse_forest("xxxx")]
print("fresh forest", len(fresh))
t1 = g.parse("xxxx")
print("first", t1 is not None)
after = [t.to_tree() for t in g.parse_forest("xxxx")]
print("after-first forest", len(after))
# include_controlflow on cache hit
g2 = Fandango(s, use_stdlib=False).grammar
a = list(g2.parse_forest("xxxx"))
b = list(g2.parse_forest("xxxx", include_controlflow=True))
c = list(Fandango(s, use_stdlib=False).grammar.parse_forest("xxxx", include_controlflow=True))
print("cf on hit", len(b), "cf fresh", len(c))
# aliasing: origin_repetitions shared?
s3 = "<start> ::= <a>{2,4}\n<a> ::= 'x'\n"
g3 = Fandango(s3, use_stdlib=False).grammar
t = g3.parse("xxx")
print([c.origin_repetitions for c in t.children])
t.children[0].origin_repetitions.append(("evil", 1, 1))
t.children[0].set_children([])
u = g3.parse("xxx")
print([c.origin_repetitions for c in u.children], str(u))
