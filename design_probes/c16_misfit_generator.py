import sys, os, logging, io, contextlib
sys.path.insert(0, "/repo/src"); sys.path.insert(0, __import__("os").path.dirname(__import__("os").path.abspath(__file__)))
os.environ.pop("FANDANGO_RAISE_ALL_EXCEPTIONS", None)
from fandango import Fandango
from fandango.language.grammar.grammar import Grammar
from derivation_checker_proto import check_tree
EV = []
orig = Grammar.generate_string
def hooked(self, symbol="<start>", sources=None):
    try:
        srcs, val = orig(self, symbol, sources)
    except Exception as e:
        EV.append((str(symbol), None, "EXC " + type(e).__name__)); raise
    EV.append((str(symbol), tuple(str(s) for s in srcs), val))
    return srcs, val
Grammar.generate_string = hooked
spec = """
import random
def gen_id():
    if random.random() < 0.3:
        return 'x' + str(random.randint(10, 99))     # does not fit <digit>{3}
    return str(random.randint(100, 999))
<start> ::= <id> ':' <body>
<id> ::= <digit>{3} := gen_id()
<body> ::= <digit>+
<digit> ::= '0'|'1'|'2'|'3'|'4'|'5'|'6'|'7'|'8'|'9'
where int(<body>) % 11 == 4
"""
outcomes = []
for seed in range(12):
    EV.clear()
    f = Fandango(spec, use_stdlib=False, logging_level=logging.CRITICAL)
    err = io.StringIO()
    try:
        with contextlib.redirect_stderr(err):
            sols = f.fuzz(desired_solutions=5, population_size=8, max_generations=6, random_seed=seed)
        misfit_events = sum(1 for e in EV if isinstance(e[2], str) and e[2].startswith("x"))
        bad = 0
        evset = {(a, str(c)) for a, b, c in EV}
        for t in sols:
            idn = t.children[0]
            if ("<id>", str(idn)) not in evset or check_tree(t, f.grammar): bad += 1
        outcomes.append(("ok", len(sols), "misfits", misfit_events, "bad", bad, "swallowed", err.getvalue().count("Error")))
    except Exception as e:
        outcomes.append(("raised", type(e).__name__, str(e)[:70]))
for o in outcomes: print(o)
