import sys, os
sys.path.insert(0, "/repo/src")
os.environ.pop("FANDANGO_RAISE_ALL_EXCEPTIONS", None)
from fandango.language.tree import DerivationTree as DT
from fandango.language.symbols import Terminal as T, NonTerminal as NT
def leaf(v): return DT(T(v))
def node(name, *ch): return DT(NT(name), list(ch))
bits8 = [leaf(b) for b in [0,1,0,0,0,0,0,1]]
cases = {
 "text+bits": node("<s>", leaf("é"), *bits8),
 "euro+bits": node("<s>", leaf("€"), *[leaf(b) for b in [0,1,0,0,0,0,0,1]]),
 "text+bytes": node("<s>", leaf("é"), leaf(b"\x01")),
 "bits-span": node("<s>", node("<a>", *[leaf(b) for b in [0,1,0,0]]), node("<b>", *[leaf(b) for b in [0,0,0,1]]), leaf("x")),
 "bits-then-text-nested": node("<s>", node("<a>", *[leaf(b) for b in [0,1,0,0]]), node("<b>", node("<c>", *[leaf(b) for b in [0,0,0,1]]), leaf("é"))),
 "ascii+bits": node("<s>", leaf("A"), *[leaf(b) for b in [0,1,0,0,0,0,1,0]]),
 "only4bits": node("<s>", *[leaf(b) for b in [0,1,0,0]]),
 "empty": node("<s>"),
 "text": node("<s>", leaf("hé"), node("<a>", leaf("llo"))),
}
for name, t in cases.items():
    out = []
    for fn in (lambda: str(t), lambda: bytes(t), lambda: t.to_bits(), lambda: int(t)):
        try: out.append(repr(fn()))
        except Exception as e: out.append(type(e).__name__)
    print(name, out)
# TreeValue order dependence
t = cases["text+bits"]
v = t.value(); a = (str(v), bytes(v))
v2 = t.value(); b = (bytes(v2), str(v2))
print("order", a, b)
# shared terminal value mutated?
tt = T("é"); before = (tt.value()._value, list(tt.value()._trailing_bits))
x = node("<s>", DT(tt), *[leaf(b) for b in [0,1,0,0,0,0,0,1]]); str(x); bytes(x)
print("terminal value after", (tt.value()._value, tt.value()._trailing_bits), before)
