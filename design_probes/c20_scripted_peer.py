import sys, os, threading, time, types, random
sys.path.insert(0, "/repo/src")
os.environ.pop("FANDANGO_RAISE_ALL_EXCEPTIONS", None)
from fandango import Fandango
from fandango.language.grammar import FuzzingMode
import logging
bridge = types.ModuleType("vf_bridge"); sys.modules["vf_bridge"] = bridge
LOG = []; lock = threading.Lock()
mode = sys.argv[1] if len(sys.argv) > 1 else "valid"
rng = random.Random(3)
def on_send(party, message, recipient):
    s = str(message)
    with lock: LOG.append(("send", party.party_name, recipient, s))
    ident = s.split()[1]
    if mode == "valid": reply = f"OK {ident}\n"
    elif mode == "wrongid": reply = f"OK {int(ident)+1:03d}\n"
    elif mode == "wrongtype": reply = f"NOPE\n"
    elif mode == "trunc": reply = f"OK {ident}"
    def deliver():
        i = 0
        while i < len(reply):
            k = rng.randint(1, 3)
            frag = reply[i:i+k]; i += k
            time.sleep(rng.random() * 0.02)
            with lock: LOG.append(("recv", "Extern", frag))
            party.receive(frag, "Extern")
    threading.Thread(target=deliver, daemon=True).start()
bridge.on_send = on_send
spec = """
import vf_bridge
<start> ::= <ex>{2}
<ex> ::= <Fuzzer:Extern:req> <Extern:Fuzzer:resp>
<req> ::= 'REQ ' <id> '\\n'
<resp> ::= 'OK ' <id> '\\n'
<id> ::= <digit>{3}
<digit> ::= '0'|'1'|'2'|'3'|'4'|'5'|'6'|'7'|'8'|'9'
where forall <e> in <ex>: str(<e>.<resp>.<id>) == str(<e>.<req>.<id>)

class Fuzzer(FandangoParty):
    def __init__(self):
        super().__init__(connection_mode=ConnectionMode.OPEN)
    def send(self, message, recipient):
        vf_bridge.on_send(self, message, recipient)

class Extern(FandangoParty):
    def __init__(self):
        super().__init__(connection_mode=ConnectionMode.EXTERNAL)
"""
f = Fandango(spec, use_stdlib=False, logging_level=logging.CRITICAL)
t0 = time.time()
try:
    f.init_population(population_size=4, random_seed=1)
    f.fandango.remote_response_timeout = 3.0
    res = []
    for t in f.generate_solutions(mode=FuzzingMode.IO):
        res.append(t); break
    for t in res:
        print("RESULT msgs:", [(m.sender, m.recipient, str(m.msg)) for m in t.protocol_msgs()])
except Exception as e:
    print("EXC", type(e).__name__, str(e)[:200])
print("time", round(time.time() - t0, 2))
print([e for e in LOG if e[0] == "send"], "".join(e[2] for e in LOG if e[0] == "recv"))
