import sys, os, copy, random
sys.path.insert(0, "/repo/src")
os.environ.pop("FANDANGO_RAISE_ALL_EXCEPTIONS", None)
from fandango import Fandango
from fandango.evolution.evaluation import Evaluator
from fandango.evolution import GeneratorWithReturn
import logging
specs = {
"rep": """
<start> ::= <n> <item>{int(<n>)} ';' <m> <w>{int(<m>)}
<n> ::= '1'|'2'|'3'|'4'
<m> ::= '0'|'1'|'2'
<item> ::= <d> <d>
<w> ::= 'w'
<d> ::= '0'|'1'|'2'|'3'|'4'|'5'|'6'|'7'|'8'|'9'
where int(<n>) >= 3
where forall <i> in <item>: int(<i>) % 2 == 0
where exists <i> in <item>: forall <x> in <i>.<d>: int(<x>) > 5
""",
"quant": """
<start> ::= <row>+
<row> ::= <cell> (',' <cell>)* '\\n'
<cell> ::= <d>+
<d> ::= '0'|'1'|'2'|'3'
where forall <r> in <row>: exists <c> in <r>.<cell>: int(<c>) == 3
where |<row>| >= 2
where all(len(str(c)) <= 3 for c in *<cell>)
where str(<start>..<cell>[0:1]) != ''
""",
}
MIS = []; N = [0]
orig = Evaluator.evaluate_individual
def make_shadow(spec):
    f2 = Fandango(spec, use_stdlib=False, logging_level=logging.CRITICAL)
    return f2
SHADOW = {}
def canon_failing(fts):
    out = []
    for ft in fts:
        try: p = tuple((type(s).__name__, s.index) for s in ft.tree.get_choices_path())
        except Exception as e: p = ("ERR", str(e)[:30])
        out.append((p, ft.tree.symbol.format_as_spec()))
    return sorted(out)
def wrapped(self, individual):
    res = yield from orig(self, individual)
    st = random.getstate()
    try:
        spec = SHADOW["spec"]
        f2 = make_shadow(spec)
        ev2 = Evaluator(f2.grammar, f2.constraints, 1.0, 5, 1.0)
        cp = copy.deepcopy(individual)
        g = GeneratorWithReturn(orig(ev2, cp)); sols = list(g); r2 = g.return_value
        N[0] += 1
        a = (res[0], canon_failing(res[1])); b = (r2[0], canon_failing(r2[1]))
        if a != b:
            MIS.append((str(individual), a, b))
    finally:
        random.setstate(st)
    return res
Evaluator.evaluate_individual = wrapped
for name, spec in specs.items():
    SHADOW["spec"] = spec
    f = Fandango(spec, use_stdlib=False, logging_level=logging.CRITICAL)
    sols = f.fuzz(desired_solutions=5, population_size=12, max_generations=6, random_seed=4)
    print(name, "solutions", len(sols), "compared", N[0], "mismatches", len(MIS))
    for m in MIS[:3]: print("  ", m)
    MIS.clear(); N[0] = 0
