import sys, os, ast
sys.path.insert(0, "/repo/src")
os.environ.pop("FANDANGO_RAISE_ALL_EXCEPTIONS", None)
import fandango
from fandango.language.parse.parse_tree import parse_tree
from fandango.language.parse.spec import CachedFandangoSpec
progs = [
 "def f(a, b=1):\n    return a + b\n",
 "def f(a, /, b, c=2, *args, d, e=3, **kw):\n    return a\n",
 "def f(a=1, /, b=2):\n    return a\n",
 "x = lambda a, b=2: a + b\n",
 "x = lambda: 1\n",
 "x = 'a' 'b'\n",
 "x = b'a' b'b'\n",
 "x = f'{1!r:>{3}}' 'tail'\n",
 "x = [i for i in range(3) if i if i > 1]\n",
 "x = 1 if 2 else 3\n",
 "x = a < b < c\n",
 "x = not a\n",
 "x = -a ** -b\n",
 "x = a[1:2, ::3]\n",
 "x = a[1,]\n",
 "x, y = 1, 2\n",
 "x = y = 3\n",
 "x: int = 3\n",
 "for i in range(3):\n    pass\nelse:\n    pass\n",
 "while True:\n    break\n",
 "try:\n    pass\nexcept ValueError as e:\n    pass\nfinally:\n    pass\n",
 "with open('f') as f, open('g'):\n    pass\n",
 "class A(B, metaclass=C):\n    x = 1\n",
 "@dec\ndef f():\n    yield 1\n",
 "import a.b as c, d\nfrom . import x\nfrom ..y import z as w\n",
 "x = (yield)\n",
 "x = {**a, 'b': 1}\n",
 "x = {1, 2}\n",
 "x = f(*a, **b, c=1)\n",
 "async def f():\n    await g()\n",
 "global x\n",
 "del x, y[0]\n",
 "assert x, 'm'\n",
 "raise E from e\n",
 "x = (a := 1)\n",
 "x += 1\n",
 "x = 1_000 + 0x10 + 1e3 + 1j\n",
 "x = ...\n",
 "x = a if b else c if d else e\n",
 "x = lambda *a, **k: (a, k)\n",
 "if a:\n    pass\nelif b:\n    pass\nelse:\n    pass\n",
 "x = r'\\d' + '\\n'\n",
 "x = '''multi\nline'''\n",
 "x = a @ b\n",
 "x = a is not b\n",
 "x = a not in b\n",
 "def f(*, a): pass\n",
 "def f(a: int = 1, *b: str, c: int, **d: float) -> None: pass\n",
]
def norm(src): return ast.dump(ast.parse(ast.unparse(ast.parse(src))))
for p in progs:
    try:
        t = parse_tree("x", p)
        c = CachedFandangoSpec(t, p, filename="x")
        got = c.code_text
        same = norm(got) == norm(p)
        print("OK " if same else "DIFF", repr(p[:50]), "" if same else "=> " + repr(got))
    except Exception as e:
        print("EXC ", repr(p[:50]), type(e).__name__, str(e)[:100])
