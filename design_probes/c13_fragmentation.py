import sys, os, itertools, logging
sys.path.insert(0, "/repo/src")
os.environ.pop("FANDANGO_RAISE_ALL_EXCEPTIONS", None)
from fandango import Fandango
from fandango.language.grammar import ParsingMode
from fandango.language.grammar.parser.iterative_parser import IterativeParser
def whole(g, w):
    out = []
    for i, t in enumerate(g.parse_forest(w)):
        out.append(t.to_tree())
        if i > 100: break
    return sorted(out)
def frag(g, w, cuts):
    p = IterativeParser(g.rules); p.new_parse("<start>", ParsingMode.COMPLETE)
    pieces = []; prev = 0
    for c in list(cuts) + [len(w)]:
        pieces.append(w[prev:c]); prev = c
    res = []; cont = []
    for piece in pieces:
        res = []
        for t, complete in p.consume(piece):
            if complete: res.append(p.collapse(t).to_tree())
            if len(res) > 100: break
        cont.append(p.can_continue())
    return sorted(res), cont
specs = {
 "bits": ("<start> ::= <n>{2} <x>\n<n> ::= <b>{4}\n<b> ::= 0|1\n<x> ::= b'AB' | rb'[C-E]+'\n", [b"\x5aAB", b"\x00CDE", b"\xffA"]),
 "regexpartial": ("<start> ::= r'ab|abc' r'c?d'\n", ["abcd", "abd", "abccd"]),
 "regexrep": ("<start> ::= (r'[0-9]+' ',')+ 'end'\n", ["12,3,end", "1,end", "1,,end"]),
 "altprefix": ("<start> ::= 'abc' | 'ab' 'cd' | 'a' <r>\n<r> ::= r'b+c?' 'd'?\n", ["abc", "abcd", "abbcd", "abx"]),
 "opt_tail": ("<start> ::= 'GET ' r'[a-z/]+' (' ' 'HTTP')? '\\n'\n", ["GET /a/b HTTP\n", "GET /a\n"]),
 "computed": ("<start> ::= <n> <c>{int(<n>)} ';'\n<n> ::= '1'|'2'|'3'\n<c> ::= 'ab'\n", ["2abab;", "3abab;", "1ab;"]),
 "unicode": ("<start> ::= 'ü' r'[äö]*' 'ß' 'e'?\n", ["üäöß", "üße"]),
}
for name, (s, words) in specs.items():
    g = Fandango(s, use_stdlib=False, logging_level=logging.CRITICAL).grammar
    for w in words:
        W = whole(g, w); n = len(w); bad = 0; tot = 0; cbad = 0
        for k in range(0, n):
            for cuts in itertools.combinations(range(1, n), k):
                tot += 1
                try: R, cont = frag(g, w, cuts)
                except Exception as e: R, cont = ["EXC " + type(e).__name__ + ": " + str(e)[:50]], []
                if R != W:
                    bad += 1
                    if bad <= 2: print("   MISMATCH", name, repr(w), cuts, "whole", len(W), "frag", R if R and str(R[0]).startswith("EXC") else len(R))
                # can_continue false at a proper prefix of an accepted word => wrong
                if W and cont and not all(cont[:-1]):
                    cbad += 1
                    if cbad <= 2: print("   CANNOT-CONTINUE", name, repr(w), cuts, cont)
        print(name, repr(w), "compositions", tot, "mismatch", bad, "bad-can_continue", cbad, "whole-trees", len(W))
