import sys, os
sys.path.insert(0, "/repo/src")
os.environ.pop("FANDANGO_RAISE_ALL_EXCEPTIONS", None)
from fandango import Fandango
import fandango.language.grammar.nodes as nodes
import logging
B = "<start> ::= 'a'*\n"
A = "<start> ::= <d>+\n<d> ::= '0'|'1'\nwhere int(<start>) % 7 == 3 and len(str(<start>)) > 40\n"
def runB():
    f = Fandango(B, use_stdlib=False, logging_level=logging.CRITICAL)
    return [str(t) for t in f.fuzz(desired_solutions=8, population_size=8, max_generations=3, random_seed=7)]
mode = sys.argv[1]
if mode == "alone":
    print(nodes.MAX_REPETITIONS, runB())
else:
    fa = Fandango(A, use_stdlib=False, logging_level=logging.CRITICAL)
    sa = fa.fuzz(desired_solutions=3, population_size=10, max_generations=15, random_seed=3)
    print("A sols", len(sa), "MAXREP now", nodes.MAX_REPETITIONS)
    print(nodes.MAX_REPETITIONS, runB())
