import sys, os, signal
sys.path.insert(0, "/repo/src")
os.environ.pop("FANDANGO_RAISE_ALL_EXCEPTIONS", None)
from fandango import Fandango
import logging
class TO(Exception): pass
def h(*a): raise TO()
signal.signal(signal.SIGALRM, h)
specs = {
 "opt_under_star": "<start> ::= <a>*\n<a> ::= 'x'?\n",
 "opt_under_plus": "<start> ::= <a>+\n<a> ::= 'x'?\n",
 "star_star": "<start> ::= (<a>*)*\n<a> ::= 'x'\n",
 "empty_lit_star": "<start> ::= <a>*\n<a> ::= '' | 'x'\n",
 "left_rec": "<start> ::= <start> 'x' | 'x'\n",
 "empty_regex_star": "<start> ::= <a>*\n<a> ::= r'x*'\n",
 "opt_rep": "<start> ::= <a>{2,3}\n<a> ::= 'x'?\n",
 "cyc": "<start> ::= <a>\n<a> ::= <start> | 'x'\n",
}
for name, s in specs.items():
    for w in ["x", "", "xx", "y"]:
        try:
            f = Fandango(s, use_stdlib=False, logging_level=logging.ERROR)
            signal.alarm(5)
            n = 0
            for t in f.parse(w):
                n += 1
                if n >= 50: break
            signal.alarm(0)
            print(name, repr(w), "trees", n)
        except TO:
            print(name, repr(w), "TIMEOUT")
        except Exception as e:
            signal.alarm(0)
            print(name, repr(w), "EXC", type(e).__name__, str(e)[:80])
