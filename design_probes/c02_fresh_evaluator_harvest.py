import sys, os, random, logging, glob, copy, io, contextlib, signal
sys.path.insert(0, "/repo/src")
os.environ.pop("FANDANGO_RAISE_ALL_EXCEPTIONS", None)
from fandango import Fandango
from fandango.language.grammar import FuzzingMode
from fandango.constraints.soft import SoftValue
class TO(Exception): pass
def h(*a): raise TO()
signal.signal(signal.SIGALRM, h)
files = sorted(glob.glob("/repo/tests/resources/*.fan") + glob.glob("/repo/docs/*.fan") + glob.glob("/repo/evaluation/**/*.fan", recursive=True))
tot = bad = specs = 0
for fn in files:
    try:
        signal.alarm(40)
        src = open(fn).read()
        err = io.StringIO()
        with contextlib.redirect_stderr(err), contextlib.redirect_stdout(io.StringIO()):
            f = Fandango(src, logging_level=logging.CRITICAL, includes=[os.path.dirname(fn)])
            if f.grammar.fuzzing_mode != FuzzingMode.COMPLETE or not f.constraints: signal.alarm(0); continue
            sols = f.fuzz(desired_solutions=8, population_size=12, max_generations=8, random_seed=3)
            f2 = Fandango(src, logging_level=logging.CRITICAL, includes=[os.path.dirname(fn)])
        specs += 1
        b = 0; first = None
        for t in sols:
            tot += 1
            cp = copy.deepcopy(t)
            for c in f2.constraints:
                if isinstance(c, SoftValue): continue
                try:
                    with contextlib.redirect_stderr(io.StringIO()):
                        ok = c.check(cp)
                except Exception as e:
                    ok = False
                if not ok:
                    b += 1; first = first or (str(t)[:40], c.format_as_spec()[:80]); break
        bad += b
        signal.alarm(0)
        if b: print("BAD", os.path.relpath(fn, "/repo"), b, "/", len(sols), first)
    except TO: print("TIMEOUT", os.path.relpath(fn, "/repo"))
    except Exception as e:
        signal.alarm(0); print("SKIP", os.path.relpath(fn, "/repo"), type(e).__name__, str(e)[:60])
print("specs", specs, "solutions", tot, "bad", bad)
