import sys, os, random, copy, logging
sys.path.insert(0, "/repo/src")
os.environ.pop("FANDANGO_RAISE_ALL_EXCEPTIONS", None)
from fandango import Fandango
from fandango.language.tree import DerivationTree as DT
from fandango.language.symbols import Terminal as T, NonTerminal as NT
G = "<start> ::= <a> (',' <a>)*\n<a> ::= <d>+ | '(' <start> ')'\n<d> ::= '0'|'1'|'2'\n"
f = Fandango(G, use_stdlib=False, logging_level=logging.CRITICAL); g = f.grammar
def dump(t):
    return (t.symbol.format_as_spec(), t.sender, t.recipient, t.read_only, tuple(t.origin_repetitions), tuple(dump(c) for c in t.children))
def shape(t):
    return (type(t.symbol).__name__, t.symbol.format_as_spec(), t.sender, t.recipient, tuple(shape(c) for c in t.children))
def rebuild(t):
    return DT(t.symbol, [rebuild(c) for c in t.children], sender=t.sender, recipient=t.recipient)
def count(t): return 1 + sum(count(c) for c in t.children)
def walk(t, where, probs):
    for n in t.flatten():
        if n.size() != count(n): probs.append((where, "size", n.size(), count(n)))
        if hash(n) != hash(rebuild(n)): probs.append((where, "hash", str(n)))
        for c in n.children:
            if c.parent is not n: probs.append((where, "parent", str(c), str(n)))
rng = random.Random(11)
allprobs = []; steps = 0
OPS = ["replace", "deepcopy", "prefix", "split_end", "index", "find", "flatten", "str", "add_child", "set_children", "symbol", "sender", "crossover", "mutate", "eqcheck"]
from fandango.evolution.crossover import SimpleSubtreeCrossover
from fandango.evolution.mutation import SimpleMutation
from fandango.evolution import GeneratorWithReturn
for h in range(300):
    random.seed(h)
    live = [g.fuzz("<start>", rng.choice([5, 20, 60])) for _ in range(3)]
    for step in range(rng.randint(1, 12)):
        op = rng.choice(OPS); t = rng.choice(live)
        before = [dump(x) for x in live]
        pure = True
        try:
            nts = [n for n in t.flatten() if n.symbol.is_non_terminal]
            n = rng.choice(nts)
            if op == "replace":
                new = g.fuzz(n.symbol, 10); r = t.replace(g, n, new); live.append(r)
            elif op == "deepcopy": live.append(copy.deepcopy(t))
            elif op == "prefix":
                if n.parent is not None: r = n.prefix(); live.append(r.get_root())
            elif op == "split_end": r = n.split_end(); live.append(r.get_root())
            elif op == "index":
                if n.children: n[rng.randrange(len(n.children))]
            elif op == "slice": n[0:rng.randint(0, 3)]
            elif op == "find": t.find_all_trees(NT("<d>")); t.find_direct_trees(NT("<a>")); t.find_all_nodes(NT("<a>"))
            elif op == "flatten": t.flatten(); t.descendants()
            elif op == "str": str(t); t.to_bits(); 
            elif op == "add_child": pure = False; n.add_child(g.fuzz("<d>", 3))
            elif op == "set_children": pure = False; n.set_children([g.fuzz("<d>", 3)])
            elif op == "symbol": pure = False; n.symbol = NT("<a>")
            elif op == "sender": pure = False; n.sender = "P"
            elif op == "crossover":
                r = SimpleSubtreeCrossover().crossover(g, t, rng.choice(live))
                if r: live.extend(r)
            elif op == "mutate":
                from fandango.constraints.failing_tree import FailingTree, NopSuggestion
                def ev(ind):
                    return (0.0, [FailingTree(rng.choice([x for x in ind.flatten() if x.symbol.is_non_terminal]), None)], NopSuggestion())
                    yield
                r = GeneratorWithReturn(SimpleMutation().mutate(t, g, ev)); list(r); live.append(r.return_value)
            elif op == "eqcheck":
                u = rng.choice(live)
                if (shape(t) == shape(u)) != (t == u): allprobs.append((h, step, "eq-mismatch", str(t), str(u)))
        except Exception as e:
            allprobs.append((h, step, op, "EXC", type(e).__name__, str(e)[:60]))
        steps += 1
        if pure:
            after = [dump(x) for x in live[:len(before)]]
            if after != before: allprobs.append((h, step, op, "input-changed"))
        for x in live: walk(x, (h, step, op), allprobs)
        live = live[-6:]
from collections import Counter
print("steps", steps, "problems", len(allprobs))
print(Counter((p[0][2] if isinstance(p[0], tuple) else p[2], p[1] if isinstance(p[0], tuple) else p[3]) for p in allprobs).most_common(12))
for p in allprobs[:4]: print(p)
