import re, sys
sys.path.insert(0, "/repo/src")
from fandango.language.grammar.nodes.non_terminal import NonTerminalNode
from fandango.language.grammar.nodes.terminal import TerminalNode
from fandango.language.grammar.nodes.alternative import Alternative
from fandango.language.grammar.nodes.concatenation import Concatenation
from fandango.language.grammar.nodes.repetition import Repetition
from fandango.language.tree_value import TreeValueType

def leaf_matches(tnode, child):
    if not child.symbol.is_terminal or len(child.children) != 0: return False
    sym = tnode.symbol
    cv = child.symbol.value()
    if sym.is_regex:
        if sym.is_type(TreeValueType.BYTES):
            if not cv.is_type(TreeValueType.BYTES) and not cv.is_type(TreeValueType.STRING): return False
            pat = sym.value().to_string("latin-1")
            val = cv._value if isinstance(cv._value, str) else cv._value.decode("latin-1")
            return re.fullmatch(pat, val, re.S if False else 0) is not None
        pat = str(sym.value())
        if not isinstance(cv._value, str): return False
        return re.fullmatch(pat, cv._value) is not None
    return child.symbol == sym

def ends(node, kids, i, grammar, computed_free=True, memo=None):
    """set of j such that node matches kids[i:j]"""
    if memo is None: memo = {}
    key = (id(node), i)
    if key in memo: return memo[key]
    memo[key] = set()  # guard
    res = set()
    if isinstance(node, TerminalNode):
        if i < len(kids) and leaf_matches(node, kids[i]): res.add(i + 1)
    elif isinstance(node, NonTerminalNode):
        if i < len(kids) and kids[i].symbol == node.symbol: res.add(i + 1)
    elif isinstance(node, Alternative):
        for a in node.alternatives: res |= ends(a, kids, i, grammar, computed_free, memo)
    elif isinstance(node, Concatenation):
        cur = {i}
        for n in node.nodes:
            nxt = set()
            for p in cur: nxt |= ends(n, kids, p, grammar, computed_free, memo)
            cur = nxt
            if not cur: break
        res = cur
    elif isinstance(node, Repetition):
        mn, mx = node.min, node.internal_max
        if node.bounds_constraint is not None or getattr(node, "_vf_computed", False):
            mn, mx = 0, None
        cur = {i}; count = 0
        if mn == 0: res.add(i)
        seen = {i}
        while cur and (mx is None or count < mx):
            nxt = set()
            for p in cur: nxt |= ends(node.node, kids, p, grammar, computed_free, memo)
            count += 1
            if count >= mn: res |= nxt
            if mx is None:
                new = nxt - seen
                if not new and count >= mn: break
                seen |= nxt
            cur = nxt
            if count > len(kids) + (mn or 0) + 2: break
    memo[key] = res
    return res

def check_tree(tree, grammar, problems=None, path=()):
    if problems is None: problems = []
    sym = tree.symbol
    if sym.is_terminal:
        if tree.children: problems.append((path, "terminal with children"))
        return problems
    name = sym.name()
    if name.startswith("<__") or name.startswith("<*"):
        problems.append((path, "helper symbol " + name)); return problems
    if sym not in grammar.rules:
        problems.append((path, "unknown symbol " + name)); return problems
    kids = tree.children
    if len(kids) not in ends(grammar.rules[sym], kids, 0, grammar):
        problems.append((path, f"{name} children {[c.symbol.format_as_spec() for c in kids]} do not match {grammar.rules[sym].format_as_spec()}"))
    for k, c in enumerate(kids): check_tree(c, grammar, problems, path + (k,))
    return problems
