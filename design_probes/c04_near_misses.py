import sys, os, random, logging, itertools
sys.path.insert(0, "/repo/src"); sys.path.insert(0, __import__("os").path.dirname(__import__("os").path.abspath(__file__)))
os.environ.pop("FANDANGO_RAISE_ALL_EXCEPTIONS", None)
from fandango import Fandango
from derivation_checker_proto import check_tree
specs = {
 "csvish": "<start> ::= <row>+\n<row> ::= <cell> (',' <cell>)* '\\n'\n<cell> ::= r'[a-c]*' | '\"' r'[a-c,]+' '\"'\n",
 "lenpref": "<start> ::= <n> <item>{int(<n>)} '.'\n<n> ::= '0'|'1'|'2'|'3'\n<item> ::= 'a' | 'bb'\n",
 "bits": "<start> ::= <f>{4} <len> <b>{int(<len>)}\n<f> ::= 0 | 1\n<len> ::= <bit>{4} := f'{random.randint(0,3):04b}'\n<bit> ::= 0 | 1\n<b> ::= rb'[\\x00-\\xff]'\n",
 "bits2": "<start> ::= <nib> <nib> <x>\n<nib> ::= <bit>{4}\n<bit> ::= 0|1\n<x> ::= b'\\x01' | b'\\x02\\x03'\n",
 "ambig": "<start> ::= <a>* <b>*\n<a> ::= 'x' | 'xy'\n<b> ::= 'y' | 'x'\n",
 "opt": "<start> ::= 'a'? ('b' | 'bc')? 'c'? <d>{2,3}\n<d> ::= 'd' | ''\n",
}
random.seed(5)
def ser(t): return t.to_bytes() if t.should_be_serialized_to_bytes() else str(t)
for name, s in specs.items():
    f = Fandango(s, use_stdlib=True, logging_level=logging.CRITICAL); g = f.grammar
    words = set()
    for i in range(40):
        try: words.add(ser(g.fuzz("<start>", 30)))
        except Exception as e: print("fuzzexc", e); break
    near = set()
    for w in list(words):
        for k in range(4):
            if len(w) == 0: continue
            i = random.randrange(len(w)); op = random.choice("dis")
            if op == "d": near.add(w[:i] + w[i+1:])
            elif op == "i": near.add(w[:i] + w[i:i+1] + w[i:])
            else:
                c = (b"\x01" if isinstance(w, bytes) else random.choice("abcdxy,.0123"))
                near.add(w[:i] + c + w[i+1:])
    n = bad = acc = 0
    for w in list(words) + list(near):
        k = 0
        try:
            for t in g.parse_forest(w):
                k += 1; n += 1
                pr = check_tree(t, g)
                if ser(t) != w or pr:
                    bad += 1
                    if bad <= 2: print("  BAD", name, repr(w), repr(ser(t)), pr[:1])
                if k >= 50: break
        except Exception as e:
            print("  EXC", name, repr(w), type(e).__name__, str(e)[:100]); break
        if k: acc += 1
    inlang_rejected = sum(1 for w in words if next(iter(g.parse_forest(w)), None) is None)
    print(name, "inputs", len(words) + len(near), "accepted", acc, "trees", n, "bad", bad, "fuzzed-but-rejected", inlang_rejected)
