import sys, os
sys.path.insert(0, "/repo/src")
from fandango import Fandango
from fandango.io.navigation.packetforecaster import PacketForecaster
from fandango.language.grammar import ParsingMode
import logging
spec = open("/repo/tests/resources/forecaster.fan").read()
f = Fandango(spec, use_stdlib=False, logging_level=logging.CRITICAL)
g = f.grammar
g.set_max_repetition(2)
fc = PacketForecaster(g)
for w in ["d", "de", "dee", "deee"]:
    t = g.parse(w, mode=ParsingMode.INCOMPLETE)
    if t is None: print(w, "no incomplete parse"); continue
    r = fc.predict(t)
    print(w, sorted((p, nt.name()) for p, fnt in r.parties_to_packets.items() for nt in fnt.nt_to_packet))
