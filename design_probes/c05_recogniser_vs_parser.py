import sys, os, itertools, logging
sys.path.insert(0, "/repo/src"); sys.path.insert(0, __import__("os").path.dirname(__import__("os").path.abspath(__file__)))
os.environ.pop("FANDANGO_RAISE_ALL_EXCEPTIONS", None)
from fandango import Fandango
from reference_recogniser_proto import Rec
specs = {
 "csv": ("<start> ::= <row>+\n<row> ::= <cell> (',' <cell>)* ';'\n<cell> ::= r'[ab]*'\n", "ab,;", False),
 "opt": ("<start> ::= 'a'? ('b' | 'bc')? 'c'? <d>{2,3}\n<d> ::= 'd' | ''\n", "abcd", False),
 "rec": ("<start> ::= '(' <start> ')' <start> | ''\n", "()", False),
 "regexend": ("<start> ::= 'x' r'[0-9]*'\n", "x01", False),
 "alt": ("<start> ::= <a> <b>\n<a> ::= 'ab' | 'a'\n<b> ::= 'c' | 'bc' | ''\n", "abc", False),
 "rep": ("<start> ::= ('a' 'b'?){1,2} 'c'{2}\n", "abc", False),
 "bits": ("<start> ::= <n> <x>\n<n> ::= <b>{8}\n<b> ::= 0|1\n<x> ::= b'A' | ''\n", None, True),
}
for name, (s, alpha, binary) in specs.items():
    g = Fandango(s, use_stdlib=False, logging_level=logging.CRITICAL).grammar
    rec = Rec(g, binary)
    tot = dis = inl = 0; ex = []
    if binary:
        words = [bytes(t) for n in range(0, 3) for t in itertools.product([0x00, 0x41, 0xff, 0x5a], repeat=n)]
    else:
        words = ["".join(t) for n in range(0, 6) for t in itertools.product(alpha, repeat=n)]
    for w in words:
        if binary: ref = rec.accepts("".join(f"{b:08b}" for b in w))
        else: ref = rec.accepts(w)
        got = g.parse(w) is not None
        tot += 1; inl += ref
        if ref != got:
            dis += 1
            if len(ex) < 4: ex.append((w, "ref", ref, "fandango", got))
    print(name, "words", tot, "in-language(ref)", inl, "disagree", dis, ex)
