import sys, os
sys.path.insert(0, "/repo/src")
os.environ.pop("FANDANGO_RAISE_ALL_EXCEPTIONS", None)
from fandango import Fandango
import logging
# C07/C02 exception path
s = "<start> ::= <d> <d>\n<d> ::= '0' | '5'\n"
cases = [
 "10 // int(<d>) > 0",          # comparison, raises for '0'
 "10 // int(<d>)",              # expression, raises for '0'
 "int(<d>) == 5 or 10 // int(<d>) > 100",
 "not (10 // int(<d>) > 0)",
]
for c in cases:
    f = Fandango(s, [c], use_stdlib=False, logging_level=logging.CRITICAL)
    for w in ["00", "05", "55", "50"]:
        import io, contextlib
        err = io.StringIO()
        with contextlib.redirect_stderr(err):
            trees = list(f.parse(w))
            ok = len(trees) > 0
            cons = f.constraints[0]
            t = f.grammar.parse(w)
            fit = cons.fitness(t)
        print(repr(c), w, "accepted" if ok else "rejected", type(cons).__name__, "success", fit.success, "fitness", fit.fitness())
