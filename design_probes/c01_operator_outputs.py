import sys, os, random, logging, io, contextlib
sys.path.insert(0, "/repo/src"); sys.path.insert(0, __import__("os").path.dirname(__import__("os").path.abspath(__file__)))
os.environ.pop("FANDANGO_RAISE_ALL_EXCEPTIONS", None)
from fandango import Fandango
from fandango.language.grammar.grammar import Grammar
from fandango.evolution.population import PopulationManager
from fandango.evolution.mutation import SimpleMutation
from fandango.evolution.crossover import SimpleSubtreeCrossover
from fandango.language.tree import DerivationTree
from derivation_checker_proto import check_tree
from collections import Counter
CUR = {}; SEEN = Counter(); BAD = []
def chk(op, t):
    if t is None: return
    root = t
    SEEN[op] += 1
    pr = check_tree(root, CUR["g"])
    if pr: BAD.append((op, str(root)[:50], pr[0]))
o_fix = PopulationManager.fix_individual
def fix(self, ind, sug=None):
    r = o_fix(self, ind, sug)
    chk("fix" if r[1] else "fix-noop", r[0]); return r
PopulationManager.fix_individual = fix
o_gen = PopulationManager._generate_population_entry
def gen(self, mn):
    r = o_gen(self, mn); chk("initial", r); return r
PopulationManager._generate_population_entry = gen
o_cx = SimpleSubtreeCrossover.crossover
def cx(self, g, a, b):
    r = o_cx(self, g, a, b)
    if r:
        for t in r: chk("crossover", t)
    return r
SimpleSubtreeCrossover.crossover = cx
o_mut = SimpleMutation.mutate
def mut(self, ind, g, ev, max_nodes=50):
    r = yield from o_mut(self, ind, g, ev, max_nodes)
    chk("mutate" if r is not ind else "mutate-noop", r); return r
SimpleMutation.mutate = mut
o_rm = DerivationTree.replace_multiple
specs = {
"eqrepair": "<start> ::= <k> '=' <v> ';' <k2>\n<k> ::= r'[a-z]{1,4}'\n<k2> ::= r'[a-z]{1,4}'\n<v> ::= <d>+\n<d> ::= r'[0-9]'\nwhere <k> == <k2>\nwhere int(<v>) % 13 == 5\n",
"rep": "<start> ::= <n> <item>{int(<n>)} '.' <m> <w>{int(<m>)}\n<n> ::= '0'|'1'|'2'|'3'|'4'|'5'\n<m> ::= '0'|'1'|'2'\n<item> ::= <d> <d>? ','\n<w> ::= 'w' | 'v'\n<d> ::= r'[0-9]'\nwhere int(<n>) >= 2\nwhere forall <i> in <item>: int(<i>.<d>) % 2 == 0\n",
"nest": "<start> ::= <list>\n<list> ::= '[' (<el> (',' <el>){0,3})? ']'\n<el> ::= <num> | <list>\n<num> ::= <d>{1,3}\n<d> ::= r'[0-9]'\nwhere |<num>| >= 4\nwhere int(<num>) > 50\n",
"bits": "<start> ::= <h> <p>\n<h> ::= <b>{8}\n<b> ::= 0 | 1\n<p> ::= rb'[\\x00-\\x7f]{2,5}'\nwhere <h>.to_bits().count('1') == 3\nwhere len(bytes(<p>)) == 4\n",
}
for name, s in specs.items():
    for seed in range(4):
        f = Fandango(s, use_stdlib=False, logging_level=logging.CRITICAL)
        CUR["g"] = f.grammar
        err = io.StringIO()
        with contextlib.redirect_stderr(err):
            sols = f.fuzz(desired_solutions=30, population_size=20, max_generations=12, random_seed=seed)
        for t in sols: chk("solution", t)
    print(name, dict(SEEN), "bad", len(BAD))
    for b in BAD[:3]: print("   ", b)
    SEEN.clear(); BAD.clear()
