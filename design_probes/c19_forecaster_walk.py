import sys, os, copy
sys.path.insert(0, "/repo/src")
os.environ.pop("FANDANGO_RAISE_ALL_EXCEPTIONS", None)
from fandango import Fandango
from fandango.io.navigation.packetforecaster import PacketForecaster
from fandango.language.tree import DerivationTree
from fandango.language.symbols import NonTerminal
from fandango.language.grammar.nodes.non_terminal import NonTerminalNode
from fandango.language.grammar.nodes.terminal import TerminalNode
from fandango.language.grammar.nodes.alternative import Alternative
from fandango.language.grammar.nodes.concatenation import Concatenation
from fandango.language.grammar.nodes.repetition import Repetition
import logging
spec = open("/repo/tests/resources/forecaster.fan").read()
f = Fandango(spec, use_stdlib=False, logging_level=logging.CRITICAL)
g = f.grammar
print({k.name(): v.format_as_spec() for k, v in g.rules.items()})
# reference: regex over letters via derivatives
EPS = ("eps",); EMPTY = ("empty",)
def seq(a, b):
    if a == EMPTY or b == EMPTY: return EMPTY
    if a == EPS: return b
    if b == EPS: return a
    return ("seq", a, b)
def alt(a, b):
    if a == EMPTY: return b
    if b == EMPTY: return a
    if a == b: return a
    return ("alt", a, b)
def rx(node, depth=0):
    if isinstance(node, NonTerminalNode):
        if node.sender is not None:
            return ("let", (node.sender, node.recipient, node.symbol.name()))
        return rx(g.rules[node.symbol], depth + 1)
    if isinstance(node, TerminalNode): return ("term",)
    if isinstance(node, Alternative):
        r = EMPTY
        for a in node.alternatives: r = alt(r, rx(a, depth))
        return r
    if isinstance(node, Concatenation):
        r = EPS
        for n in node.nodes: r = seq(r, rx(n, depth))
        return r
    if isinstance(node, Repetition):
        return ("rep", rx(node.node, depth), node.min, node.internal_max)
    raise TypeError(node)
def nullable(r):
    t = r[0]
    if t == "eps": return True
    if t in ("empty", "let", "term"): return False
    if t == "seq": return nullable(r[1]) and nullable(r[2])
    if t == "alt": return nullable(r[1]) or nullable(r[2])
    if t == "rep": return r[2] == 0 or nullable(r[1])
def deriv(r, a):
    t = r[0]
    if t in ("eps", "empty", "term"): return EMPTY
    if t == "let": return EPS if r[1] == a else EMPTY
    if t == "seq":
        d = seq(deriv(r[1], a), r[2])
        if nullable(r[1]): d = alt(d, deriv(r[2], a))
        return d
    if t == "alt": return alt(deriv(r[1], a), deriv(r[2], a))
    if t == "rep":
        body, mn, mx = r[1], r[2], r[3]
        if mx is not None and mx <= 0: return EMPTY
        rest = ("rep", body, max(mn - 1, 0), None if mx is None else mx - 1)
        if rest[3] == 0: rest = EPS
        return seq(deriv(body, a), rest)
def first(r):
    t = r[0]
    if t == "let": return {r[1]}
    if t in ("eps", "empty", "term"): return set()
    if t == "seq": return first(r[1]) | (first(r[2]) if nullable(r[1]) else set())
    if t == "alt": return first(r[1]) | first(r[2])
    if t == "rep":
        if r[3] is not None and r[3] <= 0: return set()
        return first(r[1])
R0 = rx(NonTerminalNode(NonTerminal("<start>"), []))
fc = PacketForecaster(g)
def opts(res):
    return {(p, pk.node.recipient, nt.name()) for p, fnt in res.parties_to_packets.items() for nt, pk in fnt.nt_to_packet.items()}
bad = 0; n = 0
def walk(tree, r, depth, hist):
    global bad, n
    res = fc.predict(tree)
    n += 1
    got = opts(res); exp = first(r)
    comp = len(res.complete_trees) != 0; expc = nullable(r) and len(hist) > 0
    if got != exp or (len(hist) > 0 and comp != nullable(r)):
        bad += 1; print("MISMATCH", hist, "got", sorted(got), "exp", sorted(exp), comp, nullable(r))
    if depth == 0: return
    for party, fnt in res.parties_to_packets.items():
        for nt, pk in fnt.nt_to_packet.items():
            for mp in pk.paths:
                t2 = g.collapse(mp.tree)
                t2 = copy.deepcopy(t2) if t2 is not None else DerivationTree(NonTerminal("<start>"))
                dummy = DerivationTree(NonTerminal("<hookin>"))
                t2.append(mp.path[1:-1], dummy)
                fp = dummy.parent; fp.set_children(fp.children[:-1])
                pk.node.fuzz(fp, g, 20)
                a = (party, pk.node.recipient, nt.name())
                walk(t2, deriv(r, a), depth - 1, hist + [nt.name()])
walk(DerivationTree(NonTerminal("<start>")), R0, 5, [])
print("histories", n, "mismatches", bad)
