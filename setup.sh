#!/bin/bash
# Offline setup: nothing is installed. Builds the C++ .fan front end from the
# repository's current sources into the git-ignored .cache/ (the checks rebuild it
# themselves whenever the sources change).
set -e
HERE="$(cd "$(dirname "$0")" && pwd)"
cd "$HERE"
PY="${VERIF_PYTHON:-/venv/bin/python}"
"$PY" -c "import sys; assert sys.version_info >= (3, 12), sys.version"
mkdir -p evidence replays .cache
REPO="${VERIF_REPO:-/repo}"
test -d "$REPO/src/fandango" || { echo "no $REPO/src/fandango"; exit 1; }
PYTHONPATH="$HERE" "$PY" -m vf.cppbuild || echo "WARNING: C++ front end not built; checks fall back to the Python front end (slow) and C14 will be inconclusive"
PYTHONPATH="$HERE" PYTHONHASHSEED=0 "$PY" - <<'PY'
from vf import bootstrap
st = bootstrap.bootstrap()
import fandango
print("fandango under test:", fandango.__file__, "cpp front end:", st["cpp"] is not None)
PY
