"""Child process for C17 / C18: runs one configuration in a fresh interpreter and prints a JSON
event log (solutions in order as hex of their bytes / text, canonical dumps of parse results).

argv[1] = path of a JSON config:
  {"spec": text | null, "file": path | null, "settings": {...}, "random_seed": int, "parse_inputs": [...],
   "perturb": {"heap": n, "clock": seconds, "cwd": dir, "imports": [...]}, "mode": "api" | "cli",
   "pre": [ {spec/file/settings/...}, ... ]   # activity on OTHER spec objects before the observed one (C18)
   "reset_globals": ["max_repetitions", ...]   # counterfactual attribution (C18)
  }
"""
import json
import os
import sys
import time


def perturb(p):
    if not p:
        return None
    keep = None
    if p.get("heap"):
        # shifts every id() that follows
        keep = [object() for _ in range(int(p["heap"]))] + [bytearray(64) for _ in range(int(p["heap"]) // 7)]
    if p.get("clock"):
        off = float(p["clock"])
        _t, _m, _pc = time.time, time.monotonic, time.perf_counter
        time.time = lambda: _t() + off
        time.monotonic = lambda: _m() + off
        time.perf_counter = lambda: _pc() + off
    if p.get("cwd"):
        os.makedirs(p["cwd"], exist_ok=True)
        os.chdir(p["cwd"])
    for m in p.get("imports", []):
        try:
            __import__(m)
        except Exception:
            pass
    for k, v in (p.get("env") or {}).items():
        os.environ[k] = v
    return keep


def sol_bytes(t):
    try:
        if t.should_be_serialized_to_bytes():
            return "b:" + t.to_bytes().hex()
        return "s:" + t.to_string()
    except Exception as e:
        try:
            return "bits:" + t.to_bits()
        except Exception:
            return "err:" + type(e).__name__


def tree_dump(t):
    from vf.trees import dump
    return repr(dump(t, with_sources=True, with_reps=False))


def activity(cfg, log, label):
    import random
    from fandango import Fandango

    try:
        if cfg.get("path"):
            # a spec file of the check's own making (may include() neighbours): loaded the way the CLI / API load files
            with open(cfg["path"]) as fh:
                f = Fandango(fh, use_stdlib=cfg.get("use_stdlib", False), use_cache=False)
        elif cfg.get("file"):
            from vf.gen import harvest
            f, _ = harvest.load(cfg["file"])
        else:
            kw = {}
            if "lazy" in cfg:
                kw["lazy"] = cfg["lazy"]
            f = Fandango(cfg["spec"], use_stdlib=cfg.get("use_stdlib", False), **kw)
    except Exception as e:
        log.append([label, "spec-rejected", type(e).__name__])
        return None
    st = dict(cfg.get("settings") or {})
    if cfg.get("io"):
        # protocol mode against the party classes defined in the spec itself; the log is the message sequence
        from fandango.language.grammar import FuzzingMode
        try:
            res = f.fuzz(mode=FuzzingMode.IO, random_seed=cfg.get("random_seed", 0), population_size=1, desired_solutions=cfg.get("runs", 1))
            log.append([label, "io-run", [[[str(m.sender), str(m.recipient), str(m.msg)] for m in t.protocol_msgs()] for t in res]])
        except Exception as e:
            log.append([label, "io-raised", type(e).__name__, str(e)[:160]])
        return f
    if cfg.get("fuzz", True):
        try:
            sols = f.fuzz(random_seed=cfg.get("random_seed", 0), **st)
            log.append([label, "solutions", [sol_bytes(t) for t in sols]])
        except Exception as e:
            log.append([label, "fuzz-raised", type(e).__name__])
    for w in cfg.get("parse_inputs", []):
        inp = bytes.fromhex(w[2:]) if w.startswith("b:") else w[2:]
        try:
            import itertools
            trees = list(itertools.islice(f.parse(inp), 20))
            log.append([label, "parse", w, [tree_dump(t) for t in trees]])
        except Exception as e:
            log.append([label, "parse-raised", w, type(e).__name__])
    return f


def main():
    cfg = json.load(open(sys.argv[1]))
    keep = perturb(cfg.get("perturb"))
    sys.path.insert(0, os.environ.get("VERIF_HOME", "/verif"))
    from vf import bootstrap
    bootstrap.bootstrap()
    from vf import hooks
    hooks.silence_logger()
    hooks.install_print_exception_hook()
    log = []
    import fandango.language.grammar.nodes as nodes
    if cfg.get("mode") == "cli":
        import io
        from fandango.cli import main as cli_main
        out, err = io.StringIO(), io.StringIO()
        os.environ["FANDANGO_DISABLE_UPDATE_CHECK"] = "1"
        try:
            rc = cli_main(*cfg["argv"], stdout=out, stderr=err)
        except SystemExit as e:
            rc = e.code
        except Exception as e:
            rc = "raised " + type(e).__name__
        sys.stdout = sys.__stdout__
        sys.stderr = sys.__stderr__
        files = {}
        d = cfg.get("outdir")
        if d and os.path.isdir(d):
            for fn in sorted(os.listdir(d)):
                with open(os.path.join(d, fn), "rb") as fh:
                    files[fn] = fh.read().hex()
        log.append(["cli", rc, out.getvalue(), files])
    else:
        for i, pre in enumerate(cfg.get("pre") or []):
            activity(pre, log if cfg.get("log_pre") else [], f"pre{i}")
        trace = {"max_repetitions_before": nodes.MAX_REPETITIONS}
        for g in cfg.get("reset_globals") or []:
            if g == "max_repetitions":
                nodes.MAX_REPETITIONS = 20
        trace["max_repetitions_at_start"] = nodes.MAX_REPETITIONS
        activity(cfg, log, "main")
        trace["max_repetitions_at_end"] = nodes.MAX_REPETITIONS
        log.append(["trace", trace])
    print("VFLOG " + json.dumps(log))
    sys.stdout.flush()
    os._exit(0)


if __name__ == "__main__":
    main()
