"""Mechanism classifiers for known findings: witness -> key | None.

A classifier looks only at structure computed by /verif (grammar features, the
failing node, the construct present) -- never at seeds, hashes or random values.
"""
import re

NEGATED_CATEGORY = re.compile(r"\\[DS]")


def c01_invalid_tree(model, problem):
    """C01/C05/C16: regex terminal with a negated category escape (\\D, \\S) instantiated to ''.

    exrex.getone() returns '' for these patterns; fandango puts the value in the tree unchecked.
    Witness predicate: the failing node's rule contains such a regex terminal and one of the
    node's children is an empty text leaf.
    """
    if len(problem) < 3:
        return None
    node, name = problem[2]["node"], problem[2]["name"]
    rule = model.rules.get(name)
    if rule is None:
        return None
    has_neg = any(e[0] == "regex" and NEGATED_CATEGORY.search(e[1]) for e in model._walk(rule))
    if not has_neg:
        return None
    for c in node._children:
        if c.symbol.is_terminal:
            raw = c.symbol.value()._value
            if raw == "" or raw == b"":
                return "regex-negated-category-instantiated-empty"
    return None
