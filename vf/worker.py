"""One worker process: runs a shard of a property's cases, one JSON line per case."""
import importlib
import json
import os
import signal
import sys
import time
import traceback


class CaseTimeout(BaseException):
    """BaseException so that fandango's `except Exception` cannot swallow it."""


def _alarm(signum, frame):
    raise CaseTimeout()


def run_with_timeout(fn, seconds):
    signal.signal(signal.SIGALRM, _alarm)
    signal.setitimer(signal.ITIMER_REAL, seconds)
    try:
        return fn()
    finally:
        signal.setitimer(signal.ITIMER_REAL, 0)


def main():
    prop, tier, seed, shard, nshards, out = sys.argv[1:7]
    seed, shard, nshards = int(seed), int(shard), int(nshards)
    outf = open(out, "w")

    def emit(obj):
        outf.write(json.dumps(obj, default=repr) + "\n")
        outf.flush()

    try:
        from vf import bootstrap

        mod = importlib.import_module(f"properties.{prop.lower()}")
        bootstrap.bootstrap(need_cpp=getattr(mod, "NEED_CPP", True))
        from vf import hooks

        hooks.silence_logger()
        hooks.install_print_exception_hook()
        if hasattr(mod, "setup"):
            mod.setup()
        all_cases = mod.cases(tier, seed)
    except BaseException as e:  # noqa
        emit({"fatal": f"{type(e).__name__}: {e}", "trace": traceback.format_exc()[-3000:]})
        return 3
    mine = [c for i, c in enumerate(all_cases) if i % nshards == shard]
    emit({"planned": len(mine), "total": len(all_cases)})
    per_case = mod.TIMEOUTS[tier][0]
    # Cases are independent experiments: each starts from the process-wide defaults.  fandango raises the global
    # repetition cap during hard runs and never lowers it (that leak is the subject of C18, which runs its
    # experiments in child processes); without this reset a case's workload and cost would depend on which cases
    # the worker happened to run before it.
    from fandango.language.grammar import nodes as _nodes

    default_cap = _nodes.MAX_REPETITIONS
    t_end = time.time() + mod.TIMEOUTS[tier][1] * 0.92
    for c in mine:
        if time.time() > t_end:
            emit({"case": c.get("key"), "status": "skipped-budget"})
            continue
        t0 = time.time()
        if not getattr(mod, "KEEP_GLOBALS", False):
            _nodes.MAX_REPETITIONS = default_cap
        try:
            res = run_with_timeout(lambda: mod.run_case(c), per_case)
        except CaseTimeout:
            if hasattr(mod, "on_timeout"):
                res = mod.on_timeout(c)
            else:
                res = {"status": "inconclusive", "reason": "case watchdog"}
        except BaseException as e:  # noqa
            if isinstance(e, KeyboardInterrupt):
                raise
            res = {
                "status": "inconclusive",
                "reason": f"harness error {type(e).__name__}: {e}",
                "trace": traceback.format_exc()[-2000:],
            }
        res.setdefault("status", "ok")
        res["case"] = c.get("key")
        res["wall"] = round(time.time() - t0, 3)
        if res["status"] in ("violation", "known") or res.get("keep_case"):
            res["case_full"] = c
        emit(res)
    from vf import hooks

    emit({"done": True, "hooks": dict(hooks.COUNTS)})
    return 0


if __name__ == "__main__":
    rc = main()
    sys.stdout.flush()
    os._exit(rc)
