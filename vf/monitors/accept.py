"""Online monitor for C03 (rides along in every search workload).

Observes every call of the real Evaluator.evaluate_individual: the fitness the
hard-constraint class and the repetition-bound class reported, and whether the
tree was yielded.  Refuting observation: both classes == 1.0, no soft
constraints, tree never evaluated before by this evaluator (by structural dump,
kept by the monitor itself) -- and the call does not yield the tree.
"""
import threading

from vf import hooks
from vf.trees import shape, pretty

VIOLATIONS = []
_tls = threading.local()
_seen = {}  # id(evaluator) -> set of shapes
installed = False


def reset():
    VIOLATIONS.clear()
    _seen.clear()


def install():
    global installed
    if installed:
        return
    installed = True
    from fandango.evolution.evaluation import Evaluator

    def mk_class(label):
        def mk(orig):
            def wrapper(self, individual, *a, **k):
                res = orig(self, individual, *a, **k)
                st = getattr(_tls, "stack", None)
                if st:
                    st[-1][label] = res[0]
                return res
            return wrapper
        return mk

    hooks.wrap_attr(Evaluator, "evaluate_hard_constraints", mk_class("hard"))
    hooks.wrap_attr(Evaluator, "evaluate_repetition_bounds_constraints", mk_class("rep"))

    def mk_eval(orig):
        def evaluate_individual(self, individual):
            if type(self) is not Evaluator:
                return (yield from orig(self, individual))
            hooks.count("evaluate_individual")
            seen = _seen.setdefault(id(self), set())
            try:
                sh = shape(individual)
            except Exception:
                sh = None
            first = sh is not None and sh not in seen
            if sh is not None:
                seen.add(sh)
            rec = {"hard": None, "rep": None}
            if not hasattr(_tls, "stack"):
                _tls.stack = []
            _tls.stack.append(rec)
            yielded = False
            try:
                gen = orig(self, individual)
                try:
                    while True:
                        t = next(gen)
                        if t is individual:
                            yielded = True
                        yield t
                except StopIteration as s:
                    ret = s.value
            finally:
                _tls.stack.pop()
            if first and rec["hard"] is not None:
                hooks.count("accept_monitor_first_evals")
                nrep = len(self._repetition_bounds_constraints)
                sat = rec["hard"] == 1.0 and (nrep == 0 or rec["rep"] == 1.0)
                if sat and len(self._soft_constraints) == 0 and self._expected_fitness <= 1.0:
                    hooks.count("accept_monitor_satisfying")
                    if not yielded:
                        VIOLATIONS.append({
                            "what": "tree with hard-class fitness 1.0 and repetition-class fitness "
                                    f"{rec['rep']} not reported as solution on first evaluation; "
                                    f"h={len(self._hard_constraints)} r={nrep} returned fitness={ret[0]!r}",
                            "h": len(self._hard_constraints), "r": nrep,
                            "fitness": repr(ret[0]), "tree": pretty(individual)[:300],
                        })
            return ret
        return evaluate_individual

    hooks.wrap_attr(Evaluator, "evaluate_individual", mk_eval)
