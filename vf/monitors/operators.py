"""Capture every tree the producing operators hand out (C01, C10, C16)."""
from vf import hooks

OUTPUTS = []   # (operator, tree)
INPUTS = []    # (operator, [input trees])  -- filled only when KEEP_INPUTS
KEEP_INPUTS = False
installed = False
LIMIT = 20000


def reset():
    OUTPUTS.clear()
    INPUTS.clear()


def _out(op, tree):
    hooks.count("op:" + op)
    if tree is not None and len(OUTPUTS) < LIMIT:
        OUTPUTS.append((op, tree))


def install():
    global installed
    if installed:
        return
    installed = True
    from fandango.evolution.population import PopulationManager
    from fandango.evolution.crossover import SimpleSubtreeCrossover
    from fandango.evolution.mutation import SimpleMutation
    from fandango.constraints.repetition_bounds import RepetitionBoundsSuggestion
    from fandango.constraints.comparison import EqualComparisonSuggestion
    from fandango.language.grammar.grammar import Grammar

    def mk_gen(orig):
        def _generate_population_entry(self, max_nodes):
            t = orig(self, max_nodes)
            _out("initial", t)
            return t
        return _generate_population_entry

    hooks.wrap_attr(PopulationManager, "_generate_population_entry", mk_gen)

    def mk_fix(orig):
        def fix_individual(self, individual, suggestion=None):
            if KEEP_INPUTS:
                INPUTS.append(("repair", [individual]))
            res = orig(self, individual, suggestion)
            if res[1] > 0:
                _out("repair", res[0])
            else:
                hooks.count("op:repair-noop")
            return res
        return fix_individual

    hooks.wrap_attr(PopulationManager, "fix_individual", mk_fix)

    def mk_cross(orig):
        def crossover(self, grammar, parent1, parent2):
            if KEEP_INPUTS:
                INPUTS.append(("crossover", [parent1, parent2]))
            res = orig(self, grammar, parent1, parent2)
            if res is not None:
                for t in res:
                    _out("crossover", t)
            return res
        return crossover

    hooks.wrap_attr(SimpleSubtreeCrossover, "crossover", mk_cross)

    def mk_mut(orig):
        def mutate(self, individual, grammar, evaluate_func, *a, **k):
            if KEEP_INPUTS:
                INPUTS.append(("mutation", [individual]))
            res = yield from orig(self, individual, grammar, evaluate_func, *a, **k)
            if res is not individual:
                _out("mutation", res)
            else:
                hooks.count("op:mutation-noop")
            return res
        return mutate

    hooks.wrap_attr(SimpleMutation, "mutate", mk_mut)

    def mk_rb(orig):
        def get_replacements(self, individual, grammar):
            res = orig(self, individual, grammar)
            if res:
                if self._goal_len > self._bound_len:
                    hooks.count("op:rep-insert")
                elif self._goal_len == 0:
                    hooks.count("op:rep-full-delete")
                else:
                    hooks.count("op:rep-delete")
            return res
        return get_replacements

    hooks.wrap_attr(RepetitionBoundsSuggestion, "get_replacements", mk_rb)

    def mk_eq(orig):
        def get_replacements(self, individual, grammar):
            res = orig(self, individual, grammar)
            hooks.count("op:eq-repair" if res else "op:eq-repair-none")
            return res
        return get_replacements

    hooks.wrap_attr(EqualComparisonSuggestion, "get_replacements", mk_eq)

    def mk_generate(orig):
        def generate(self, symbol="<start>", sources=None):
            t = orig(self, symbol, sources)
            hooks.count("op:generator")
            return t
        return generate

    hooks.wrap_attr(Grammar, "generate", mk_generate)
