"""Shadow evaluation (C11): every (sampled) evaluation of the real evaluator is repeated by a
brand-new evaluator on constraint objects with empty caches, on a structural copy of the tree
(copy keeps generator sources and repetition grouping). The global RNG state is saved/restored
so that the monitor does not perturb the run it observes."""
import copy
import random

from vf import hooks

STATE = {"shadow_constraints": None, "grammar": None, "expected": 1.0, "every": 1, "n": 0, "enabled": False}
MISMATCHES = []
installed = False


def _subconstraints(c):
    from fandango.constraints.constraint import Constraint

    for v in vars(c).values():
        if isinstance(v, Constraint):
            yield v
        elif isinstance(v, (list, tuple)):
            for x in v:
                if isinstance(x, Constraint):
                    yield x


def clear_caches(c, seen=None):
    seen = seen if seen is not None else set()
    if id(c) in seen:
        return
    seen.add(id(c))
    if hasattr(c, "cache") and isinstance(c.cache, dict):
        c.cache.clear()
    for s in _subconstraints(c):
        clear_caches(s, seen)


class UncachedBudget(BaseException):
    """Without memoisation nested quantifiers over recursive symbols can take exponentially many sub-evaluations."""


class NoStore(dict):
    """A constraint memo that never remembers anything: every lookup misses.  Lookups are counted (one per
    sub-evaluation) so that an unmemoised evaluation can be abandoned after a logical budget."""
    lookups = 0
    budget = 4000

    def __setitem__(self, k, v):
        pass

    def __contains__(self, k):
        NoStore.lookups += 1
        if NoStore.lookups > NoStore.budget:
            raise UncachedBudget()
        return False


def disable_caches(c, seen=None):
    seen = seen if seen is not None else set()
    if id(c) in seen:
        return
    seen.add(id(c))
    if hasattr(c, "cache") and isinstance(c.cache, dict):
        c.cache = NoStore()
    for s in _subconstraints(c):
        disable_caches(s, seen)


def failing_signature(failing_trees):
    sig = []
    for ft in failing_trees:
        t = ft.tree
        try:
            path = tuple((type(s).__name__[0], s.index) for s in t.get_choices_path())
        except Exception:
            path = ("?",)
        try:
            cause = ft.cause.format_as_spec() if ft.cause is not None else None
        except Exception:
            cause = type(ft.cause).__name__
        sig.append((path, t.symbol.format_as_spec(), cause))
    return sorted(map(repr, sig))


DETACHED = repr(("?",))


def comparable(sig_a, sig_b):
    """Failing parts are compared as (path, symbol, cause).  fandango's memos hand out the failing NODES of whichever
    structurally equal tree was evaluated first; such a node has the same path in its own tree unless that tree has
    been edited in place since (then it is detached and has no path at all).  When either side names a detached node,
    both sides are compared without paths."""
    if any(DETACHED in x for x in sig_a) or any(DETACHED in x for x in sig_b):
        strip = lambda sig: sorted(repr(eval(x)[1:]) for x in sig)
        return strip(sig_a), strip(sig_b)
    return sig_a, sig_b


def begin_run(spec_builder, every=1):
    """spec_builder() -> (grammar, constraints) freshly parsed from the same text as the observed run"""
    g, cons = spec_builder()
    g2, cons2 = spec_builder()
    for con in cons2:
        disable_caches(con)
    STATE.update(shadow_constraints=cons, grammar=g, every=every, n=0, enabled=True, done=0, cap=300,
                 uncached_constraints=cons2, uncached_grammar=g2)
    MISMATCHES.clear()


def end_run():
    STATE["enabled"] = False


def install():
    global installed
    if installed:
        return
    installed = True
    from fandango.evolution.evaluation import Evaluator

    def mk(orig):
        def evaluate_individual(self, individual):
            # the shadow evaluators' own evaluations are not shadowed again
            if type(self) is not Evaluator or not STATE["enabled"] or STATE.get("in_shadow"):
                return (yield from orig(self, individual))
            key_before = hash((individual.get_root(), individual))
            cached = key_before in self._fitness_cache
            ret = yield from orig(self, individual)
            STATE["n"] += 1
            # sampling: fresh evaluations every `every`-th, cache hits (cheap and frequent) every 8x`every`-th,
            # at most `cap` comparisons per run
            period = STATE["every"] * (8 if cached else 1)
            if STATE["n"] % period or STATE.get("done", 0) >= STATE.get("cap", 600):
                return ret
            STATE["done"] = STATE.get("done", 0) + 1
            hooks.count("shadow_compared")
            if cached:
                hooks.count("shadow_compared_cache_hit")
            st = random.getstate()
            STATE["in_shadow"] = True
            try:
                cp = copy.deepcopy(individual)
                for con in STATE["shadow_constraints"]:
                    clear_caches(con)
                ev = Evaluator(STATE["grammar"], STATE["shadow_constraints"], self._expected_fitness,
                               self._diversity_k, self._diversity_weight)
                gen = ev.evaluate_individual(cp)
                try:
                    while True:
                        next(gen)
                except StopIteration as s:
                    fresh = s.value
                sa, sb = comparable(failing_signature(ret[1]), failing_signature(fresh[1]))
                a = (ret[0], sa)
                b = (fresh[0], sb)
                # third evaluation: constraint objects whose memo never stores, so that not even results cached
                # earlier in the SAME evaluation (inner constraints under other bindings) can be served
                ev2 = Evaluator(STATE["uncached_grammar"], STATE["uncached_constraints"], self._expected_fitness,
                                self._diversity_k, self._diversity_weight)
                gen = ev2.evaluate_individual(copy.deepcopy(individual))
                NoStore.lookups = 0
                unc = None
                try:
                    while True:
                        next(gen)
                except StopIteration as s:
                    unc = s.value
                except UncachedBudget:
                    hooks.count("shadow_uncached_abandoned_budget")
                if unc is not None:
                    hooks.count("shadow_compared_uncached")
                c_ = (unc[0], failing_signature(unc[1])) if unc is not None else None
                # compared: fitness and verdict only. Which of several structurally equal subtrees is named as the failing
                # part may legitimately differ (bindings to equal subtrees share a memo entry; a brand-new evaluation
                # does the same), the property's reference is the brand-new evaluation above
                if c_ is not None and a == b and c_[0] != b[0]:
                    from vf.trees import pretty

                    what = [f"evaluation with memoisation switched off gives fitness {c_[0]!r}, with (empty, then filling) memos {b[0]!r}"]
                    if (c_[0] >= self._expected_fitness) != (b[0] >= self._expected_fitness):
                        what.append("VERDICT differs")
                    if len(MISMATCHES) < 20:
                        MISMATCHES.append({"what": "; ".join(what), "tree": pretty(individual)[:300], "cache_hit": cached, "uncached": True})
                if a != b:
                    from vf.trees import pretty

                    what = []
                    if a[0] != b[0]:
                        what.append(f"fitness {a[0]!r} (run) vs {b[0]!r} (fresh)")
                    if (a[0] >= self._expected_fitness) != (b[0] >= self._expected_fitness):
                        what.append("VERDICT differs")
                    if a[1] != b[1]:
                        only_a = [x for x in a[1] if x not in b[1]][:3]
                        only_b = [x for x in b[1] if x not in a[1]][:3]
                        what.append(f"failing parts differ: only in run {only_a}, only fresh {only_b}")
                    if len(MISMATCHES) < 20:
                        MISMATCHES.append({"what": "; ".join(what), "tree": pretty(individual)[:300], "cache_hit": cached})
            except Exception as e:  # the shadow must never disturb the observed run
                hooks.count("shadow_failed:" + type(e).__name__)
            finally:
                STATE["in_shadow"] = False
                random.setstate(st)
            return ret
        return evaluate_individual

    hooks.wrap_attr(Evaluator, "evaluate_individual", mk)
