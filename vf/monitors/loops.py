"""Second logical clock for C06: loop back-edges of the parser package that make no progress.

The admission clock (vf.monitors.steps) only sees divergence that keeps admitting Earley states.  A loop that
spins *without* admitting anything (e.g. a walk over the parse table that keeps re-selecting the same state) never
advances that clock; the only thing that would stop it is the wall-clock watchdog, whose firing is inconclusive.

This monitor counts, via sys.monitoring JUMP events restricted to the code objects of
fandango.language.grammar.parser.*, how often ONE back-edge of ONE function is taken while
  * no state was admitted anywhere (steps.S.total unchanged), and
  * that function neither returned, yielded nor unwound.
A loop of the parser iterates over states already in the table, over children or over the input, so inside one
activation and between two admissions a back-edge can be taken at most a small multiple of the number of states
admitted so far in this request.  Passing  100_000 + 20 * (admitted so far + input length)  is the witness: the
activation is spinning on state that no longer changes the table.  The callback then raises TightLoop
(BaseException) into the monitored code, which ends the request.
"""
import sys

from vf.monitors import steps


class TightLoop(BaseException):
    def __init__(self, witness):
        super().__init__(witness)
        self.witness = witness


TOOL = 3
BASE_LIMIT = 100_000


class L:
    installed = False
    counters = {}        # code -> {offset: [count, admissions_epoch]}
    backedges = 0        # total back-edges observed (evidence that the monitor is alive)
    max_spin = 0         # largest no-progress count seen on a request that ended normally
    enabled = True
    codes = 0


def _code_objects(mod):
    import types

    seen = set()
    out = []

    def walk(co):
        if co in seen:
            return
        seen.add(co)
        out.append(co)
        for k in co.co_consts:
            if isinstance(k, types.CodeType):
                walk(k)

    for v in list(vars(mod).values()):
        if isinstance(v, types.FunctionType) and v.__module__ == mod.__name__:
            walk(v.__code__)
        elif isinstance(v, type) and v.__module__ == mod.__name__:
            for a in list(vars(v).values()):
                fn = a
                if isinstance(a, (staticmethod, classmethod)):
                    fn = a.__func__
                elif isinstance(a, property):
                    for g in (a.fget, a.fset):
                        if isinstance(g, types.FunctionType):
                            walk(g.__code__)
                    continue
                fn = getattr(fn, "__wrapped__", fn)
                if isinstance(fn, types.FunctionType):
                    walk(fn.__code__)
    return out


def reset():
    for d in L.counters.values():
        for e in d.values():
            if e[0] > L.max_spin:
                L.max_spin = e[0]
    L.counters = {}


def install():
    if L.installed:
        return
    L.installed = True
    mon = sys.monitoring
    mon.use_tool_id(TOOL, "vf-loops")
    E = mon.events
    import importlib

    mods = [importlib.import_module("fandango.language.grammar.parser." + m)
            for m in ("iterative_parser", "column", "parse_state", "parser")]
    S = steps.S

    def on_jump(code, off, dest):
        if dest >= off:
            return
        L.backedges += 1
        d = L.counters.get(code)
        if d is None:
            d = L.counters[code] = {}
        e = d.get(off)
        tot = S.total
        if e is None or e[1] != tot:
            if e is not None and e[0] > L.max_spin:
                L.max_spin = e[0]
            d[off] = [1, tot]
            return
        e[0] += 1
        if e[0] > BASE_LIMIT and L.enabled and e[0] > BASE_LIMIT + 20 * (S.req_total + S.input_len):
            n = e[0]
            L.counters = {}
            line = None
            try:
                for s, t, ln in code.co_lines():
                    if s <= off < t:
                        line = ln
            except Exception:
                pass
            raise TightLoop({"kind": "no-progress-loop", "function": code.co_qualname, "file": code.co_filename.rsplit("/", 1)[-1],
                             "line": line, "back_edge_taken": n, "states_admitted_meanwhile": 0, "states_admitted_in_request": S.req_total,
                             "limit": BASE_LIMIT + 20 * (S.req_total + S.input_len)})

    def on_leave(code, off, val):
        if code in L.counters:
            d = L.counters.pop(code)
            for e in d.values():
                if e[0] > L.max_spin:
                    L.max_spin = e[0]

    mon.register_callback(TOOL, E.JUMP, on_jump)
    mon.register_callback(TOOL, E.PY_RETURN, on_leave)
    mon.register_callback(TOOL, E.PY_YIELD, on_leave)
    n = 0
    for m in mods:
        for co in _code_objects(m):
            # (PY_UNWIND cannot be set per code object; counters of a function left by an exception are dropped by reset())
            mon.set_local_events(TOOL, co, E.JUMP | E.PY_RETURN | E.PY_YIELD)
            n += 1
    L.codes = n
