"""Logical clock of the Earley parser: admissions into columns (Column.add returning True).

Used as (a) a step budget that aborts runaway parses in checks that are not about
termination (-> inconclusive), and (b) the deciding monitor of C06: budget exceeded
*and* a pumping witness (one state core admitted many times into one column with
growing child lists).
"""
from collections import Counter

from vf import hooks


class StepBudgetExceeded(BaseException):
    """BaseException: fandango's `except Exception` handlers must not swallow it."""


class S:
    count = 0
    budget = None
    track = False
    cores = Counter()
    growth = {}
    total = 0
    req_total = 0        # admissions since reset() (not reset by outputs)
    max_per_request = 0
    input_len = 0
    dups = Counter()
    dup_names = {}


installed = False


def reset(budget=None, track=False, input_len=0):
    S.max_per_request = max(S.max_per_request, S.count)
    S.count = 0
    S.req_total = 0
    S.budget = budget
    S.track = track
    S.input_len = input_len
    if track:
        S.cores = Counter()
        S.growth = {}
        S.dups = Counter()
        S.dup_names = {}


def tick_output():
    """An output of the request (yield) resets the clock; the witness tables are kept."""
    S.max_per_request = max(S.max_per_request, S.count)
    S.count = 0


def witness(min_admissions=64):
    """A divergence witness, or None.

    (1) growth: the most-admitted (column, core) keeps admitting larger and larger child forests
        (node count beyond what a derivation of an input of this length can need, and still rising);
    (2) duplicate: the very same state (core + children) was admitted into one column several times,
        which the column's uniqueness test is meant to make impossible."""
    if S.dups:
        key, n = S.dups.most_common(1)[0]
        if n > 4:
            return {"kind": "duplicate-state", "core": S.dup_names.get(key, "?"), "admissions": n,
                    "children_len_first": 0, "children_len_last": 0}
    if not S.cores:
        return None
    for key, n in S.cores.most_common(5):
        if n <= min_admissions:
            continue
        g = S.growth.get(key, [])
        if len(g) < 9:
            continue
        third = len(g) // 3
        bound = 60 + 25 * S.input_len
        if max(g) > bound and max(g[-third:]) > max(g[:third]) and max(g[-third:]) > 2 * max(g[:3]):
            return {"kind": "growing-children", "core": key[1], "admissions": n, "children_len_first": g[0],
                    "children_len_last": max(g[-third:]), "growth_samples": g[:3] + g[-3:], "bound": bound}
    return None


def _node_count(children, cap=3000):
    n = 0
    stack = list(children)
    while stack and n < cap:
        t = stack.pop()
        n += 1
        stack.extend(t._children)
    return n


def install():
    global installed
    if installed:
        return
    installed = True
    from fandango.language.grammar.parser.column import Column

    def mk(orig):
        def add(self, state):
            r = orig(self, state)
            if r:
                S.count += 1
                S.total += 1
                S.req_total += 1
                if S.track:
                    core = (state.nonterminal.name(), state.position,
                            tuple(s[0].format_as_spec() for s in state.symbols), state._dot)
                    key = (id(self), repr(core))
                    S.cores[key] += 1
                    g = S.growth.setdefault(key, [])
                    c = S.cores[key]
                    if c <= 3 or (c > 32 and c % 16 == 0):
                        g.append(_node_count(state.children))
                    try:
                        dk = (id(self), hash(state))
                        S.dups[dk] += 1
                        if S.dups[dk] == 5:
                            S.dup_names[dk] = repr(core)
                    except Exception:
                        pass
                if S.budget is not None and S.count > S.budget:
                    raise StepBudgetExceeded()
            return r
        return add

    hooks.wrap_attr(Column, "add", mk)
