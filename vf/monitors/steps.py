"""Logical clock of the Earley parser: admissions into columns (Column.add returning True).

Used as (a) a step budget that aborts runaway parses in checks that are not about
termination (-> inconclusive), and (b) the deciding monitor of C06: budget exceeded
*and* a pumping witness (one state core admitted many times into one column with
growing child lists).
"""
from collections import Counter

from vf import hooks


class StepBudgetExceeded(BaseException):
    """BaseException: fandango's `except Exception` handlers must not swallow it."""


class S:
    count = 0
    budget = None
    track = False
    cores = Counter()
    growth = {}
    total = 0
    max_per_request = 0


installed = False


def reset(budget=None, track=False):
    S.max_per_request = max(S.max_per_request, S.count)
    S.count = 0
    S.budget = budget
    S.track = track
    if track:
        S.cores = Counter()
        S.growth = {}


def tick_output():
    """An output of the request (yield) resets the clock; the witness tables are kept."""
    S.max_per_request = max(S.max_per_request, S.count)
    S.count = 0


def witness(min_admissions=64):
    """The most-admitted (column, core) if it shows growth, else None."""
    if not S.cores:
        return None
    key, n = S.cores.most_common(1)[0]
    if n <= min_admissions:
        return None
    g = S.growth.get(key, [])
    if len(g) >= 2 and g[-1] > g[0]:
        return {"core": key[1], "admissions": n, "children_len_first": g[0], "children_len_last": g[-1],
                "growth_samples": g[:3] + g[-3:]}
    return None


def install():
    global installed
    if installed:
        return
    installed = True
    from fandango.language.grammar.parser.column import Column

    def mk(orig):
        def add(self, state):
            r = orig(self, state)
            if r:
                S.count += 1
                S.total += 1
                if S.track:
                    core = (state.nonterminal.name(), state.position,
                            tuple(s[0].format_as_spec() for s in state.symbols), state._dot)
                    key = (id(self), repr(core))
                    S.cores[key] += 1
                    g = S.growth.setdefault(key, [])
                    if len(g) < 4000:
                        g.append(len(state.children))
                if S.budget is not None and S.count > S.budget:
                    raise StepBudgetExceeded()
            return r
        return add

    hooks.wrap_attr(Column, "add", mk)
