"""Curated regex terminals: pattern -> tags and sample matches.

Every entry is self-tested at import: each sample must `re.fullmatch` the pattern.
`exrex.getone` (which fandango uses to instantiate regexes) is cross-checked against
`re.fullmatch` by properties that instantiate regexes; entries on which the two
libraries disagree are dropped by `usable()`.
"""
import re

TABLE = {
    # pattern: (alphabet description, samples)
    r"[0-9]": ["0", "7", "9"],
    r"[0-9]+": ["0", "42", "007"],
    r"[0-9]*": ["", "5", "31"],
    r"[a-c]": ["a", "b", "c"],
    r"[a-c]+": ["a", "cb", "abc"],
    r"[a-c]*": ["", "b", "ca"],
    r"[a-z]{2}": ["ab", "zz"],
    r"[a-z]{1,3}": ["q", "xy", "abc"],
    r"x?": ["", "x"],
    r"(ab)+": ["ab", "abab"],
    r"(a|bc)": ["a", "bc"],
    r"[A-F0-9]{2}": ["0A", "FF"],
    r"a*b": ["b", "ab", "aab"],
    r"[^,;]+": ["a", "x y", "q1"],
    r"\d{1,2}": ["1", "23"],
    r"\w+": ["a", "b_1"],
    r"[ \t]+": [" ", " \t"],
    r".": ["a", "Z", "#"],
}

# delimiter that no match of the pattern can contain / end in ambiguity with (default "\x7f")
DELIM = {r"[^,;]+": ","}

BYTES_TABLE = {
    r"[\x00-\x03]": ["\x00", "\x03"],
    r"[\x80-\xff]": ["\x80", "\xff"],
    r"[a-c]+": ["a", "cb"],
    r"[\x00-\xff]{2}": ["\x00\x01", "\xfe\xff"],
    r"\x01[\x00-\x0f]*": ["\x01", "\x01\x05\x0a"],
}

for _p in TABLE:
    _d = DELIM.get(_p, "\x7f")
    # variable-length patterns must not be able to match their delimiter
    if _p not in (r".",) and not re.fullmatch(r".*\{\d+\}", _p):
        for _s in TABLE[_p]:
            assert re.fullmatch(_p, _s + _d) is None, (_p, _d)

for _t in (TABLE, BYTES_TABLE):
    for _p, _ss in _t.items():
        for _s in _ss:
            assert re.fullmatch(_p, _s, re.S if False else 0) is not None, (_p, _s)


def samples_for(pattern):
    if pattern in TABLE:
        return list(TABLE[pattern])
    if pattern in BYTES_TABLE:
        return list(BYTES_TABLE[pattern])
    out = []
    try:
        import exrex
        import random

        st = random.getstate()
        try:
            random.seed(hash(pattern) & 0xFFFF)
            for _ in range(6):
                s = exrex.getone(pattern, 4)
                if re.fullmatch(pattern, s) is not None and s not in out:
                    out.append(s)
        finally:
            random.setstate(st)
    except Exception:
        pass
    if re.fullmatch(pattern, "") is not None and "" not in out:
        out.append("")
    return out


def may_match_empty(pattern):
    return re.fullmatch(pattern, "") is not None
