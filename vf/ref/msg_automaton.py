"""Message-level language of a protocol grammar by Brzozowski derivatives (exact for unbounded repetitions).

Letters are (sender, recipient, symbol name). Built from fandango's node objects *as they are after*
init_io / slice_parties, so slicing is judged against the sliced grammar."""
EPS = ("eps",)
EMPTY = ("empty",)


def seq(a, b):
    if a == EMPTY or b == EMPTY:
        return EMPTY
    if a == EPS:
        return b
    if b == EPS:
        return a
    return ("seq", a, b)


def alt(a, b):
    if a == EMPTY:
        return b
    if b == EMPTY:
        return a
    if a == b:
        return a
    return ("alt", a, b)


def from_grammar(g, start="<start>"):
    from fandango.language.symbols import NonTerminal
    from fandango.language.grammar.nodes.non_terminal import NonTerminalNode
    from fandango.language.grammar.nodes.terminal import TerminalNode
    from fandango.language.grammar.nodes.alternative import Alternative
    from fandango.language.grammar.nodes.concatenation import Concatenation
    from fandango.language.grammar.nodes.repetition import Repetition

    def rx(node, depth=0):
        if depth > 40:
            raise RecursionError("recursive protocol grammar: not supported by the finite expansion")
        if isinstance(node, NonTerminalNode):
            if node.sender is not None:
                return ("let", (node.sender, node.recipient, node.symbol.name()))
            return rx(g.rules[node.symbol], depth + 1)
        if isinstance(node, TerminalNode):
            return ("term",)
        if isinstance(node, Alternative):
            r = EMPTY
            for a in node.alternatives:
                r = alt(r, rx(a, depth))
            return r
        if isinstance(node, Concatenation):
            r = EPS
            for n in node.nodes:
                r = seq(r, rx(n, depth))
            return r
        if isinstance(node, Repetition):
            return ("rep", rx(node.node, depth), node.min, node.internal_max)
        raise TypeError(type(node).__name__)

    return rx(NonTerminalNode(NonTerminal(start), []))


def nullable(r):
    t = r[0]
    if t == "eps":
        return True
    if t in ("empty", "let", "term"):
        return False
    if t == "seq":
        return nullable(r[1]) and nullable(r[2])
    if t == "alt":
        return nullable(r[1]) or nullable(r[2])
    if t == "rep":
        return r[2] == 0 or nullable(r[1])
    if t == "skippable":
        return True
    raise ValueError(t)


def deriv(r, a, lenient=False):
    """Brzozowski derivative. `lenient` is a deliberately WRONG variant used only to attribute a
    mismatch to a listed finding: an iteration of a repetition that was entered may be abandoned
    mid-way (the rest of the body is skippable)."""
    t = r[0]
    if t in ("eps", "empty", "term"):
        return EMPTY
    if t == "let":
        return EPS if r[1] == a else EMPTY
    if t == "seq":
        d = seq(deriv(r[1], a, lenient), r[2])
        if nullable(r[1]):
            d = alt(d, deriv(r[2], a, lenient))
        return d
    if t == "alt":
        return alt(deriv(r[1], a, lenient), deriv(r[2], a, lenient))
    if t == "rep":
        body, mn, mx = r[1], r[2], r[3]
        if mx is not None and mx <= 0:
            return EMPTY
        rest = ("rep", body, max(mn - 1, 0), None if mx is None else mx - 1)
        if rest[3] == 0:
            rest = EPS
        d = deriv(body, a, lenient)
        if lenient and d != EMPTY:
            d = ("skippable", d)
        return seq(d, rest)
    if t == "skippable":
        d = deriv(r[1], a, lenient)
        return ("skippable", d) if d != EMPTY else EMPTY
    raise ValueError(t)


def first(r):
    t = r[0]
    if t == "let":
        return {r[1]}
    if t in ("eps", "empty", "term"):
        return set()
    if t == "seq":
        return first(r[1]) | (first(r[2]) if nullable(r[1]) else set())
    if t == "alt":
        return first(r[1]) | first(r[2])
    if t == "rep":
        if r[3] is not None and r[3] <= 0:
            return set()
        return first(r[1])
    if t == "skippable":
        return first(r[1])
    raise ValueError(t)
