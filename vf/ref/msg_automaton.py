"""Message-level language of a protocol grammar by Brzozowski derivatives (exact for unbounded repetitions).

Letters are (sender, recipient, symbol name). Built from fandango's node objects.  With `keep` (a set of party
names) the builder is given the UNSLICED grammar and applies the slicing rule itself - a message whose sender (and, unless receivers are
ignored, whose recipient) is outside `keep` vanishes; a sequence drops vanished members, an alternative drops vanished branches,
a repetition vanishes with its body, a symbol vanishes with its whole rule - so that fandango's own slicing
(slice_parties / PacketTruncator) is judged against an independent reading of the same rule."""
EPS = ("eps",)
EMPTY = ("empty",)


def seq(a, b):
    if a == EMPTY or b == EMPTY:
        return EMPTY
    if a == EPS:
        return b
    if b == EPS:
        return a
    return ("seq", a, b)


def alt(a, b):
    if a == EMPTY:
        return b
    if b == EMPTY:
        return a
    if a == b:
        return a
    return ("alt", a, b)


VANISH = ("vanish",)


def from_grammar(g, start="<start>", keep=None, ignore_receivers=False):
    from fandango.language.symbols import NonTerminal
    from fandango.language.grammar.nodes.non_terminal import NonTerminalNode
    from fandango.language.grammar.nodes.terminal import TerminalNode
    from fandango.language.grammar.nodes.alternative import Alternative
    from fandango.language.grammar.nodes.concatenation import Concatenation
    from fandango.language.grammar.nodes.repetition import Repetition

    def rx(node, depth=0):
        if depth > 40:
            raise RecursionError("recursive protocol grammar: not supported by the finite expansion")
        if isinstance(node, NonTerminalNode):
            if node.sender is not None:
                if keep is not None:
                    if ignore_receivers:
                        hidden = node.sender not in keep
                    else:
                        hidden = node.recipient is not None and node.sender not in keep and node.recipient not in keep
                    if hidden:
                        return VANISH
                return ("let", (node.sender, node.recipient, node.symbol.name()))
            return rx(g.rules[node.symbol], depth + 1)
        if isinstance(node, TerminalNode):
            return ("term",)
        if isinstance(node, Alternative):
            parts = [rx(a, depth) for a in node.alternatives]
            parts = [x for x in parts if x != VANISH]
            if not parts and node.alternatives:
                return VANISH
            r = EMPTY
            for x in parts:
                r = alt(r, x)
            return r
        if isinstance(node, Concatenation):
            parts = [rx(n, depth) for n in node.nodes]
            kept = [x for x in parts if x != VANISH]
            if not kept and parts:
                return VANISH
            r = EPS
            for x in kept:
                r = seq(r, x)
            return r
        if isinstance(node, Repetition):
            b = rx(node.node, depth)
            if b == VANISH:
                return VANISH
            return ("rep", b, node.min, node.internal_max)
        raise TypeError(type(node).__name__)

    r0 = rx(NonTerminalNode(NonTerminal(start), []))
    if r0 == VANISH:
        raise KeyError(start)
    return r0


def nullable(r):
    t = r[0]
    if t == "eps":
        return True
    if t in ("empty", "let", "term"):
        return False
    if t == "seq":
        return nullable(r[1]) and nullable(r[2])
    if t == "alt":
        return nullable(r[1]) or nullable(r[2])
    if t == "rep":
        return r[2] == 0 or nullable(r[1])
    if t == "skippable":
        return True
    raise ValueError(t)


def deriv(r, a, lenient=False):
    """Brzozowski derivative. `lenient` is a deliberately WRONG variant used only to attribute a
    mismatch to a listed finding: an iteration of a repetition that was entered may be abandoned
    mid-way (the rest of the body is skippable)."""
    t = r[0]
    if t in ("eps", "empty", "term"):
        return EMPTY
    if t == "let":
        return EPS if r[1] == a else EMPTY
    if t == "seq":
        d = seq(deriv(r[1], a, lenient), r[2])
        if nullable(r[1]):
            d = alt(d, deriv(r[2], a, lenient))
        return d
    if t == "alt":
        return alt(deriv(r[1], a, lenient), deriv(r[2], a, lenient))
    if t == "rep":
        body, mn, mx = r[1], r[2], r[3]
        if mx is not None and mx <= 0:
            return EMPTY
        rest = ("rep", body, max(mn - 1, 0), None if mx is None else mx - 1)
        if rest[3] == 0:
            rest = EPS
        d = deriv(body, a, lenient)
        if lenient and d != EMPTY:
            d = ("skippable", d)
        return seq(d, rest)
    if t == "skippable":
        d = deriv(r[1], a, lenient)
        return ("skippable", d) if d != EMPTY else EMPTY
    raise ValueError(t)


def first(r):
    t = r[0]
    if t == "let":
        return {r[1]}
    if t in ("eps", "empty", "term"):
        return set()
    if t == "seq":
        return first(r[1]) | (first(r[2]) if nullable(r[1]) else set())
    if t == "alt":
        return first(r[1]) | first(r[2])
    if t == "rep":
        if r[3] is not None and r[3] <= 0:
            return set()
        return first(r[1])
    if t == "skippable":
        return first(r[1])
    raise ValueError(t)
