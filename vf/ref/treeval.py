"""Reference value of a leaf sequence (C09's statement), independent of TreeValue.

Text leaves are UTF-8 encoded next to binary ones; bytes are the bits in groups of
eight; the string view of a binary tree is the Latin-1 decoding of its bytes; an
all-text tree is the plain concatenation.
"""
from vf.trees import leaves


def leaf_kind(leaf):
    v = leaf.symbol.value()
    raw = v._value
    tb = list(getattr(v, "_trailing_bits", []) or [])
    if raw is None:
        return ("bits", tb)
    if isinstance(raw, str):
        return ("str", raw) if not tb else ("mixed", raw, tb)
    return ("bytes", raw) if not tb else ("mixed", raw, tb)


def leaf_seq(tree):
    return [leaf_kind(l) for l in leaves(tree)]


def is_binary(seq):
    return any(k[0] in ("bits", "bytes", "mixed") for k in seq)


def to_bits(seq):
    """bit string of the whole leaf sequence (text leaves UTF-8)."""
    out = []
    for k in seq:
        if k[0] == "bits":
            out.append("".join(str(b) for b in k[1]))
        elif k[0] == "str":
            out.append("".join(f"{b:08b}" for b in k[1].encode("utf-8")))
        elif k[0] == "bytes":
            out.append("".join(f"{b:08b}" for b in k[1]))
        else:
            raw = k[1].encode("utf-8") if isinstance(k[1], str) else k[1]
            out.append("".join(f"{b:08b}" for b in raw) + "".join(str(b) for b in k[2]))
    return "".join(out)


def aligned(seq):
    """every text/bytes leaf starts on a byte boundary"""
    pos = 0
    for k in seq:
        if k[0] == "bits":
            pos += len(k[1])
        else:
            if pos % 8 != 0:
                return False
            n = len(k[1].encode("utf-8")) if isinstance(k[1], str) else len(k[1])
            pos += 8 * n
            if k[0] == "mixed":
                pos += len(k[2])
    return True


def to_bytes(seq):
    bits = to_bits(seq)
    if len(bits) % 8:
        return None
    return bytes(int(bits[i:i + 8], 2) for i in range(0, len(bits), 8))


def to_str(seq):
    if not is_binary(seq):
        return "".join(k[1] for k in seq)
    b = to_bytes(seq)
    return None if b is None else b.decode("latin-1")


def word_of(tree, binary):
    """The word of a tree as the reference recogniser wants it (str, or bit string for binary grammars)."""
    seq = leaf_seq(tree)
    if binary:
        return to_bits(seq)
    # text grammar: all leaves are expected to be str (a bytes leaf decodes Latin-1)
    out = []
    for k in seq:
        if k[0] == "str":
            out.append(k[1])
        elif k[0] == "bytes":
            out.append(k[1].decode("latin-1"))
        else:
            return None
    return "".join(out)
