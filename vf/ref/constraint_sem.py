"""Reference semantics of the constraint sub-language (docs/Paths.md, docs/Constraints.md).

Constraint AST (owned by /verif; printed to .fan text by `to_text`):
  ("atom", template, occs)          template: Python expression text with {0} {1} ... placeholders
                                    occs[i] = ("one", sel) | ("star", sel) | ("len", sel) | ("var", name)
  ("and", [c...]) ("or", [c...])
  ("forall", bound, sel, body)      old style: forall <x> in SEL: BODY      (bound = "<x>")
  ("exists", bound, sel, body)
  ("all", var, sel, body)           all(BODY for var in *SEL)               (var = identifier or "<x>")
  ("any", var, sel, body)
Selectors:
  ("sym", "<a>") ("dot", sel, "<b>") ("ddot", sel, "<b>") ("idx", sel, i) ("slice", sel, i, j)

Verdict of an atom: the Python expression is truthy for every combination of matches of its
"one" occurrences; a raising combination makes it false; an occurrence without match leaves
nothing to violate (true).  and/or combine atomic verdicts; quantifiers bind one match at a time.
"""
import itertools


class Raised(Exception):
    pass


SELECTOR_RAISED = [0]
# Counterfactual switches used only to *attribute* a mismatch to a listed finding: with a switch on,
# the reference deliberately deviates from the documentation in exactly that one respect.
OPTS = {"ddot_includes_self": False, "not_binds_to_left_operand": False}   # bumped whenever an index selector was out of range (docs are silent: abstention)


def sel_text(s):
    k = s[0]
    if k == "sym":
        return s[1]
    if k == "dot":
        return f"{sel_text(s[1])}.{s[2]}"
    if k == "ddot":
        return f"{sel_text(s[1])}..{s[2]}"
    if k == "idx":
        return f"{sel_text(s[1])}[{s[2]}]"
    if k == "slice":
        a = "" if s[2] is None else str(s[2])
        b = "" if s[3] is None else str(s[3])
        return f"{sel_text(s[1])}[{a}:{b}]"
    raise ValueError(k)


def to_text(c):
    k = c[0]
    if k == "atom":
        parts = []
        for o in c[2]:
            if o[0] == "one":
                parts.append(sel_text(o[1]))
            elif o[0] == "star":
                parts.append("*" + sel_text(o[1]))
            elif o[0] == "len":
                parts.append("|" + sel_text(o[1]) + "|")
            else:
                parts.append(o[1])
        return c[1].format(*parts)
    if k == "and":
        return " and ".join(_paren(x) for x in c[1])
    if k == "or":
        return " or ".join(_paren(x) for x in c[1])
    if k in ("forall", "exists"):
        return f"{k} {c[1]} in {sel_text(c[2])}: {to_text(c[3])}"
    if k in ("all", "any"):
        return f"{k}({to_text(c[3])} for {c[1]} in *{sel_text(c[2])})"
    raise ValueError(k)


def _paren(c):
    # formulas are generated flat (disjunction of conjunctions of atoms): `and` binds tighter than `or`,
    # so no parentheses are needed -- a parenthesised group would be ONE Python expression (one atom)
    assert c[0] in ("atom", "and"), c[0]
    return to_text(c)


def _name(t):
    return t.symbol.name() if t.symbol.is_non_terminal else None


def all_nodes(tree, name):
    """all nodes of the tree (root included) with that symbol, document order"""
    out = []
    stack = [tree]
    while stack:
        t = stack.pop()
        if _name(t) == name:
            out.append(t)
        stack.extend(reversed(t._children))
    return out


def find(sel, root, scope, self_hits=None):
    """matches of a selector: list of real node objects (raises Raised for out-of-range indexing)"""
    k = sel[0]
    if k == "sym":
        if sel[1] in scope:
            return [scope[sel[1]]]
        return all_nodes(root, sel[1])
    bases = find(sel[1], root, scope, self_hits)
    out = []
    if k == "dot":
        for b in bases:
            out.extend(c for c in b._children if _name(c) == sel[2])
    elif k == "ddot":
        for b in bases:
            if OPTS["ddot_includes_self"]:
                out.extend(all_nodes(b, sel[2]))
            else:
                for c in b._children:
                    out.extend(all_nodes(c, sel[2]))
            if self_hits is not None and _name(b) == sel[2]:
                self_hits.append(b)
    elif k == "idx":
        for b in bases:
            try:
                out.append(b._children[sel[2]])
            except IndexError:
                SELECTOR_RAISED[0] += 1
                raise Raised("index out of range")
    elif k == "slice":
        for b in bases:
            out.append(b[sel[2]:sel[3]])   # a slice view (C10 checks that slicing has no side effects)
    return out


def eval_atom(c, root, scope, variables, env, self_hits=None):
    template, occs = c[1], c[2]
    names = []
    one_lists = []
    fixed = {}
    for i, o in enumerate(occs):
        nm = f"_v{i}"
        names.append(nm)
        if o[0] == "one":
            try:
                one_lists.append((nm, find(o[1], root, scope, self_hits)))
            except Raised:
                return False
        elif o[0] == "star":
            try:
                fixed[nm] = list(find(o[1], root, scope, self_hits))
            except Raised:
                return False
        elif o[0] == "len":
            try:
                fixed[nm] = len(find(o[1], root, scope, self_hits))
            except Raised:
                return False
        else:
            if o[1].startswith("<"):
                if o[1] not in scope:
                    return True
                fixed[nm] = scope[o[1]]
            else:
                fixed[nm] = variables[o[1]]
    expr = template.format(*names)
    if OPTS["not_binds_to_left_operand"] and template.startswith("not "):
        import re as _re
        m_ = _re.match(r"not (.*?) (==|!=|<=|>=|<|>) (.*)$", expr)
        if m_:
            expr = f"(not {m_.group(1)}) {m_.group(2)} {m_.group(3)}"
    code = compile(expr, "<ref>", "eval")
    for combo in itertools.product(*[l for _, l in one_lists]):
        loc = dict(fixed)
        loc.update(variables)
        for (nm, _), v in zip(one_lists, combo):
            loc[nm] = v
        try:
            if not eval(code, dict(env), loc):
                return False
        except Exception:
            return False
    return True


def evaluate(c, root, scope=None, variables=None, env=None, self_hits=None):
    scope = scope or {}
    variables = variables or {}
    env = env or {}
    k = c[0]
    if k == "atom":
        return eval_atom(c, root, scope, variables, env, self_hits)
    # no short-circuit: every part is evaluated so that abstention counters (SELECTOR_RAISED) and
    # self-hit records see the whole constraint, whatever the order of evaluation
    if k == "and":
        return all([evaluate(x, root, scope, variables, env, self_hits) for x in c[1]])
    if k == "or":
        return any([evaluate(x, root, scope, variables, env, self_hits) for x in c[1]])
    if k in ("forall", "exists", "all", "any"):
        try:
            matches = find(c[2], root, scope, self_hits)
        except Raised:
            return False
        results = []
        for m in matches:
            if c[1].startswith("<"):
                sc = dict(scope)
                sc[c[1]] = m
                results.append(evaluate(c[3], root, sc, variables, env, self_hits))
            else:
                vs = dict(variables)
                vs[c[1]] = m
                results.append(evaluate(c[3], root, scope, vs, env, self_hits))
        return all(results) if k in ("forall", "all") else any(results)
    raise ValueError(k)


def has_raising_combination(c, root, scope=None, variables=None, env=None):
    """Does some atom of c raise for some combination on this tree? (workload statistics / classification)"""
    scope = scope or {}
    variables = variables or {}
    k = c[0]
    if k == "atom":
        template, occs = c[1], c[2]
        lists = []
        fixed = {}
        names = []
        for i, o in enumerate(occs):
            nm = f"_v{i}"
            names.append(nm)
            try:
                if o[0] == "one":
                    lists.append((nm, find(o[1], root, scope)))
                elif o[0] == "star":
                    fixed[nm] = list(find(o[1], root, scope))
                elif o[0] == "len":
                    fixed[nm] = len(find(o[1], root, scope))
                else:
                    fixed[nm] = scope.get(o[1]) if o[1].startswith("<") else variables.get(o[1])
            except Raised:
                return True
        code = compile(template.format(*names), "<ref>", "eval")
        for combo in itertools.product(*[l for _, l in lists]):
            loc = dict(fixed)
            loc.update(variables)
            for (nm, _), v in zip(lists, combo):
                loc[nm] = v
            try:
                eval(code, dict(env or {}), loc)
            except Exception:
                return True
        return False
    if k in ("and", "or"):
        return any(has_raising_combination(x, root, scope, variables, env) for x in c[1])
    try:
        matches = find(c[2], root, scope)
    except Raised:
        return True
    for m in matches:
        if c[1].startswith("<"):
            sc = dict(scope)
            sc[c[1]] = m
            if has_raising_combination(c[3], root, sc, variables, env):
                return True
        else:
            vs = dict(variables)
            vs[c[1]] = m
            if has_raising_combination(c[3], root, scope, vs, env):
                return True
    return False
