"""Reference reading of a grammar, independent of fandango's Earley parser and fuzzer.

A RefGrammar is a dict  name -> expr  over tuples:
  ("lit", value)              value: str | bytes
  ("regex", pattern, isbytes) pattern always a str (bytes patterns Latin-1 decoded)
  ("bit", 0|1)
  ("nt", "<name>")
  ("seq", (e1, ..., ek))
  ("alt", (e1, ..., ek))
  ("rep", e, min, max|None, computed)   computed repetitions are read as {0,} here

It offers: a derivation checker for fandango trees, a recogniser, a bounded
enumerator of L(G), a (sound, bounded) viable-prefix test and the nullability /
cycle analyses the known-finding classifiers use.

Words: `str` for text grammars; for binary grammars (bytes or bit terminals) a
bit string over "01" (bytes terminals need i % 8 == 0).
"""
import re
import itertools


class RefGrammar:
    def __init__(self, rules, binary=None):
        self.rules = rules
        self.binary = self._has_binary() if binary is None else binary
        self._regex_samples = {}
        # How a *text* terminal inside a binary grammar is read by the recogniser:
        # "utf-8" (the documented serialisation) or "both" (also the Latin-1 reading the
        # parser applies to incoming bytes) -- C04 abstains on the difference, C05 does not.
        self.text_in_binary = "utf-8"

    # ------------------------------------------------------------------ analyses
    def _walk(self, e):
        yield e
        k = e[0]
        if k == "nonempty":
            yield from self._walk(e[1])
            return
        if k in ("seq", "alt"):
            for c in e[1]:
                yield from self._walk(c)
        elif k == "rep":
            yield from self._walk(e[1])

    def all_exprs(self):
        for r in self.rules.values():
            yield from self._walk(r)

    def _has_binary(self):
        for e in self.all_exprs():
            if e[0] == "bit":
                return True
            if e[0] == "lit" and isinstance(e[1], bytes):
                return True
            if e[0] == "regex" and e[2]:
                return True
        return False

    def restrict(self, start):
        """Sub-grammar of the rules reachable from `start` (binary-ness is then relative to it)."""
        seen, stack = set(), [start]
        while stack:
            n = stack.pop()
            if n in seen or n not in self.rules:
                continue
            seen.add(n)
            for e in self._walk(self.rules[n]):
                if e[0] == "nt":
                    stack.append(e[1])
        m = RefGrammar({n: r for n, r in self.rules.items() if n in seen})
        m.text_in_binary = self.text_in_binary
        return m

    def has_bits(self):
        return any(e[0] == "bit" for e in self.all_exprs())

    def nullable_set(self):
        """Set of nonterminal names deriving the empty word; plus a function for exprs."""
        nullable = set()

        def nul(e):
            k = e[0]
            if k == "lit":
                return len(e[1]) == 0
            if k == "regex":
                return re.fullmatch(e[1], "") is not None
            if k == "bit":
                return False
            if k == "nt":
                return e[1] in nullable
            if k == "seq":
                return all(nul(c) for c in e[1])
            if k == "alt":
                return any(nul(c) for c in e[1])
            if k == "rep":
                return e[2] == 0 or nul(e[1])
            raise ValueError(k)

        changed = True
        while changed:
            changed = False
            for n, r in self.rules.items():
                if n not in nullable and nul(r):
                    nullable.add(n)
                    changed = True
        return nullable, nul

    def features(self):
        """Structural features used by known-finding classifiers."""
        nullable, nul = self.nullable_set()
        f = set()
        for e in self.all_exprs():
            if e[0] == "rep":
                if e[3] is None and nul(e[1]):
                    f.add("nullable-body-under-unbounded-repetition")
                if nul(e[1]) and (e[3] is None or e[3] > 1):
                    f.add("nullable-body-under-repetition")
                if e[4]:
                    f.add("computed-repetition")
            if e[0] == "regex" and re.fullmatch(e[1], "") is not None:
                f.add("regex-may-match-empty")
            if e[0] == "lit" and len(e[1]) == 0:
                f.add("empty-literal")
        # unit / nullable derivation cycles: A =>+ A consuming nothing else
        edges = {n: set() for n in self.rules}

        def unit_targets(e):
            """nonterminals B such that e => B with all siblings nullable"""
            k = e[0]
            if k == "nt":
                return {e[1]}
            if k == "alt":
                s = set()
                for c in e[1]:
                    s |= unit_targets(c)
                return s
            if k == "seq":
                s = set()
                for i, c in enumerate(e[1]):
                    if all(nul(o) for j, o in enumerate(e[1]) if j != i):
                        s |= unit_targets(c)
                return s
            if k == "rep":
                if e[3] is None or e[3] >= 1:
                    # one iteration with the others empty needs min<=1 or nullable body
                    if e[2] <= 1 or nul(e[1]):
                        return unit_targets(e[1])
                return set()
            return set()

        for n, r in self.rules.items():
            edges[n] = {t for t in unit_targets(r) if t in self.rules}
        # cycle detection
        for n in self.rules:
            seen, stack = set(), list(edges[n])
            while stack:
                x = stack.pop()
                if x == n:
                    f.add("nullable-or-unit-derivation-cycle")
                    break
                if x in seen:
                    continue
                seen.add(x)
                stack.extend(edges[x])
        # left recursion (A =>* A alpha with a nullable prefix)
        return f

    # ------------------------------------------------------------------ leaves
    @staticmethod
    def _leaf_raw(tree):
        v = tree.symbol.value()
        return v._value, list(getattr(v, "_trailing_bits", []) or [])

    def leaf_matches(self, e, child):
        if not child.symbol.is_terminal or len(child._children) != 0:
            return False
        if getattr(child.symbol, "is_regex", False):
            return False  # a leaf must be a concrete value, never a pattern
        raw, tb = self._leaf_raw(child)
        k = e[0]
        if k == "bit":
            return raw is None and tb == [e[1]]
        if tb:
            return False
        if k == "lit":
            lit = e[1]
            if raw == lit and type(raw) is type(lit):
                return True
            # the same literal seen through the other representation (after parsing bytes input)
            if isinstance(lit, str) and isinstance(raw, bytes):
                return raw in (lit.encode("utf-8"), _enc(lit, "latin-1"))
            if isinstance(lit, bytes) and isinstance(raw, str):
                return _enc(raw, "latin-1") == lit
            return False
        if k == "regex":
            if raw is None:
                return False
            s = raw if isinstance(raw, str) else raw.decode("latin-1")
            try:
                return re.fullmatch(e[1], s) is not None
            except re.error:
                return False
        return False

    # ------------------------------------------------------------------ derivation checker
    def _child_ends(self, e, kids, i, memo):
        key = (id(e), i)
        if key in memo:
            return memo[key]
        memo[key] = set()
        k = e[0]
        res = set()
        if k in ("lit", "regex", "bit"):
            if i < len(kids) and self.leaf_matches(e, kids[i]):
                res.add(i + 1)
        elif k == "nt":
            if i < len(kids) and kids[i].symbol.is_non_terminal and kids[i].symbol.name() == e[1]:
                res.add(i + 1)
        elif k == "alt":
            for c in e[1]:
                res |= self._child_ends(c, kids, i, memo)
        elif k == "seq":
            cur = {i}
            for c in e[1]:
                nxt = set()
                for p in cur:
                    nxt |= self._child_ends(c, kids, p, memo)
                cur = nxt
                if not cur:
                    break
            res = cur
        elif k == "rep":
            mn, mx = e[2], e[3]
            if e[4]:
                mn, mx = 0, None
            res = self._rep_ends(lambda p: self._child_ends(e[1], kids, p, memo), i, mn, mx, len(kids))
        memo[key] = res
        return res

    @staticmethod
    def _rep_ends(step, i, mn, mx, n):
        """positions reachable by mn..mx iterations of `step` from i (iterations may be empty)."""
        res = set()
        cur = {i}
        if mn == 0:
            res.add(i)
        count = 0
        while cur and (mx is None or count < mx):
            nxt = set()
            for p in cur:
                nxt |= step(p)
            count += 1
            if count >= mn:
                new = nxt - res
                res |= nxt
                # once the minimum is met, a position already reached need not be expanded again
                cur = new if (mx is None or count > mn + n + 1) else nxt
            else:
                cur = nxt
        return res

    def check_tree(self, tree, start=None, path=(), problems=None, limit=5):
        """Return a list of (path, message); empty = valid derivation."""
        if problems is None:
            problems = []
        if len(problems) >= limit:
            return problems
        sym = tree.symbol
        if start is not None:
            if not sym.is_non_terminal or sym.name() != start:
                problems.append((path, f"root is {sym.format_as_spec()}, expected {start}"))
                return problems
        if sym.is_terminal:
            if tree._children:
                problems.append((path, "terminal with children"))
            return problems
        if not sym.is_non_terminal:
            problems.append((path, f"unexpected symbol class {type(sym).__name__}"))
            return problems
        name = sym.name()
        if name.startswith("<__") or name.startswith("<*"):
            problems.append((path, "helper symbol " + name))
            return problems
        if name not in self.rules:
            problems.append((path, "unknown symbol " + name))
            return problems
        kids = tree._children
        ends = self._child_ends(self.rules[name], kids, 0, {})
        if len(kids) not in ends:
            desc = " ".join(c.symbol.format_as_spec() for c in kids)
            problems.append((path, f"children of {name} [{desc[:200]}] are not an expansion of its rule", {"node": tree, "name": name}))
        for i, c in enumerate(kids):
            self.check_tree(c, None, path + (i,), problems, limit)
        return problems

    # ------------------------------------------------------------------ recogniser
    def _term_ends(self, e, w, i):
        k = e[0]
        if not self.binary:
            if k == "lit":
                lit = e[1]
                if isinstance(lit, bytes):
                    lit = lit.decode("latin-1")
                return {i + len(lit)} if w.startswith(lit, i) else set()
            if k == "regex":
                out = set()
                pat = _compiled(e[1])
                for j in range(i, len(w) + 1):
                    if pat.fullmatch(w, i, j):
                        out.add(j)
                return out
            return set()
        # binary: w is a bit string
        if k == "bit":
            return {i + 1} if i < len(w) and w[i] == str(e[1]) else set()
        if i % 8 != 0:
            return set()
        nbytes = (len(w) - i) // 8
        data = bytes(int(w[i + 8 * b: i + 8 * b + 8], 2) for b in range(nbytes))
        if k == "lit":
            lit = e[1].encode("utf-8") if isinstance(e[1], str) else e[1]
            out = {i + 8 * len(lit)} if data.startswith(lit) else set()
            if isinstance(e[1], str) and self.text_in_binary == "both":
                l1 = _enc(e[1], "latin-1")
                if l1 is not None and data.startswith(l1):
                    out.add(i + 8 * len(l1))
            return out
        if k == "regex":
            out = set()
            pat = _compiled(e[1])
            if e[2]:
                txt = data.decode("latin-1")
                for j in range(0, len(txt) + 1):
                    if pat.fullmatch(txt, 0, j):
                        out.add(i + 8 * j)
            else:
                for j in range(0, len(data) + 1):
                    try:
                        s = data[:j].decode("utf-8")
                    except UnicodeDecodeError:
                        continue
                    if pat.fullmatch(s):
                        out.add(i + 8 * j)
                if self.text_in_binary == "both":
                    txt = data.decode("latin-1")
                    for j in range(0, len(txt) + 1):
                        if pat.fullmatch(txt, 0, j):
                            out.add(i + 8 * j)
            return out
        return set()

    def ends_from(self, start, w, i=0):
        """All end positions of matches of <start> beginning at i (least fixpoint; copes with left recursion)."""
        e = self.rules[start]
        prev = None
        approx = {}
        for _ in range(len(w) + 4):
            table = _FixTable(approx)
            r = self._ends_fix(e, w, i, table, set())
            snapshot = {k: frozenset(v) for k, v in table.store.items()}
            if snapshot == prev:
                break
            prev = snapshot
            approx = {k: set(v) for k, v in table.store.items()}
        return r

    def _ends_fix(self, e, w, i, table, active):
        key = (id(e), i)
        if key in active:
            return set(table.approx.get(key, ()))
        if key in table.done:
            return table.store[key]
        active.add(key)
        k = e[0]
        res = set(table.approx.get(key, ()))
        if k in ("lit", "regex", "bit"):
            res = self._term_ends(e, w, i)
        elif k == "nt":
            res |= self._ends_fix(self.rules[e[1]], w, i, table, active)
        elif k == "alt":
            for c in e[1]:
                res |= self._ends_fix(c, w, i, table, active)
        elif k == "seq":
            cur = {i}
            for c in e[1]:
                nxt = set()
                for p in cur:
                    nxt |= self._ends_fix(c, w, p, table, active)
                cur = nxt
                if not cur:
                    break
            res |= cur
        elif k == "rep":
            mn, mx = e[2], e[3]
            if e[4]:
                mn, mx = 0, None
            res |= self._rep_ends(lambda p: self._ends_fix(e[1], w, p, table, active), i, mn, mx, len(w))
        elif k == "nonempty":
            res |= self._ends_fix(e[1], w, i, table, active) - {i}
        active.discard(key)
        table.store[key] = res
        table.done.add(key)
        return res

    def accepts(self, w, start="<start>", i=0):
        return len(w) in self.ends_from(start, w, i)

    # ------------------------------------------------------------------ enumeration
    def regex_samples(self, pattern, isbytes):
        key = (pattern, isbytes)
        if key in self._regex_samples:
            return self._regex_samples[key]
        from vf.ref.regex_table import samples_for

        s = samples_for(pattern)
        self._regex_samples[key] = s
        return s

    def words(self, start="<start>", max_len=6, max_depth=7, cap=3000):
        """A set of words of L(start) of length <= max_len (chars, or bits/8 for binary),
        derivations of nesting depth <= max_depth; complete for grammars without regexes,
        sampled through the regex table otherwise. Stops at `cap` words (returns what it has)."""
        unit = 8 if self.binary else 1
        maxl = max_len * unit
        memo = {}

        def enc_lit(v):
            if not self.binary:
                return v.decode("latin-1") if isinstance(v, bytes) else v
            b = v.encode("utf-8") if isinstance(v, str) else v
            return "".join(f"{x:08b}" for x in b)

        def gen(e, depth, budget):
            key = (id(e), depth, budget)
            if key in memo:
                return memo[key]
            memo[key] = frozenset()
            k = e[0]
            out = set()
            if k == "lit":
                s = enc_lit(e[1])
                if len(s) <= budget:
                    out.add(s)
            elif k == "bit":
                if budget >= 1:
                    out.add(str(e[1]))
            elif k == "regex":
                for s in self.regex_samples(e[1], e[2]):
                    if self.binary:
                        s = enc_lit(s.encode("latin-1") if e[2] else s)
                    if len(s) <= budget:
                        out.add(s)
            elif k == "nt":
                if depth > 0:
                    out = set(gen(self.rules[e[1]], depth - 1, budget))
            elif k == "alt":
                for c in e[1]:
                    out |= gen(c, depth, budget)
                    if len(out) > cap:
                        break
            elif k == "seq":
                cur = {""}
                for c in e[1]:
                    nxt = set()
                    for p in cur:
                        for s in gen(c, depth, budget - len(p)):
                            nxt.add(p + s)
                            if len(nxt) > cap:
                                break
                        if len(nxt) > cap:
                            break
                    cur = nxt
                    if not cur:
                        break
                out = cur
            elif k == "rep":
                mn, mx = e[2], e[3]
                if e[4]:
                    memo[key] = frozenset()
                    return memo[key]  # computed repetitions are outside the enumerated class
                cur = {""}
                if mn == 0:
                    out.add("")
                cnt = 0
                while cur and (mx is None or cnt < mx):
                    nxt = set()
                    for p in cur:
                        for s in gen(e[1], depth, budget - len(p)):
                            nxt.add(p + s)
                            if len(nxt) > cap:
                                break
                        if len(nxt) > cap:
                            break
                    cnt += 1
                    if cnt >= mn:
                        if nxt <= out and "" in gen(e[1], depth, budget):
                            out |= nxt
                            if mx is None:
                                break
                        out |= nxt
                    cur = nxt
                    if cnt > maxl + mn + 1:
                        break
                    if len(out) > cap:
                        break
            r = frozenset(itertools.islice(sorted(out, key=lambda s: (len(s), s)), cap + 1))
            memo[key] = r
            return r

        res = gen(("nt", start), max_depth, maxl)
        return sorted(res, key=lambda s: (len(s), s))[:cap]


class _FixTable:
    def __init__(self, approx):
        self.approx = approx
        self.store = {}
        self.done = set()


_compiled_cache = {}


def _compiled(p):
    c = _compiled_cache.get(p)
    if c is None:
        c = _compiled_cache[p] = re.compile(p)
    return c


def _enc(s, enc):
    try:
        return s.encode(enc)
    except UnicodeEncodeError:
        return None


# ---------------------------------------------------------------------- from fandango's node objects
def from_fandango(grammar):
    """Read a RefGrammar off fandango's grammar node objects (used for harvested specs)."""
    from fandango.language.grammar.nodes.non_terminal import NonTerminalNode
    from fandango.language.grammar.nodes.terminal import TerminalNode
    from fandango.language.grammar.nodes.alternative import Alternative
    from fandango.language.grammar.nodes.concatenation import Concatenation
    from fandango.language.grammar.nodes.repetition import Repetition
    from fandango.language.tree_value import TreeValueType

    def conv(n):
        if isinstance(n, TerminalNode):
            sym = n.symbol
            v = sym.value()
            if v.is_type(TreeValueType.TRAILING_BITS_ONLY):
                return ("bit", int(v._trailing_bits[0]))
            raw = v._value
            if sym.is_regex:
                if isinstance(raw, bytes):
                    return ("regex", raw.decode("latin-1"), True)
                return ("regex", raw, False)
            return ("lit", raw if raw is not None else "")
        if isinstance(n, NonTerminalNode):
            return ("nt", n.symbol.name())
        if isinstance(n, Alternative):
            return ("alt", tuple(conv(a) for a in n.alternatives))
        if isinstance(n, Concatenation):
            return ("seq", tuple(conv(a) for a in n.nodes))
        if isinstance(n, Repetition):
            style = None
            if type(n) is Repetition and n.internal_max is None:
                style = "{n,}"
            return ("rep", conv(n.node), n.min, n.internal_max, n.bounds_constraint is not None, style)
        raise ValueError(f"unknown node {type(n).__name__}")

    rules = {nt.name(): conv(node) for nt, node in grammar.rules.items()}
    return RefGrammar(rules)
