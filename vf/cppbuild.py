"""Build the C++ .fan front end from the repository's *current working tree*.

The extension is git-ignored in the repository, so a fresh restore may not have
it, and a stale copy must never be trusted.  We build it out of tree, cache the
result under /verif/.cache/cpp/<content-hash>/ and load it by absolute path.
"""
import fcntl
import hashlib
import os
import shutil
import subprocess
import sys
import tempfile
import time

VERIF = os.path.dirname(os.path.dirname(os.path.abspath(__file__)))
CACHE = os.path.join(VERIF, ".cache", "cpp")


def repo_root():
    return os.environ.get("VERIF_REPO", "/repo")


def sources_hash(repo=None, extra=""):
    repo = repo or repo_root()
    h = hashlib.sha256()
    h.update(extra.encode())
    cm = os.path.join(repo, "CMakeLists.txt")
    with open(cm, "rb") as f:
        h.update(f.read())
    base = os.path.join(repo, "src", "fandango", "language", "cpp_parser")
    for root, dirs, files in sorted(os.walk(base)):
        dirs.sort()
        for fn in sorted(files):
            if fn.endswith((".cpp", ".h", ".hpp", ".inl")):
                p = os.path.join(root, fn)
                h.update(os.path.relpath(p, base).encode())
                with open(p, "rb") as f:
                    h.update(f.read())
    return h.hexdigest()[:20]


def ensure_built(repo=None, sanitize=False, timeout=1500):
    """Return the path of an extension built from the current sources (or None)."""
    repo = repo or repo_root()
    tag = "asan" if sanitize else "plain"
    key = sources_hash(repo, tag)
    outdir = os.path.join(CACHE, key)
    so = os.path.join(outdir, "sa_fandango_cpp_parser.so")
    if os.path.exists(so):
        return so
    os.makedirs(CACHE, exist_ok=True)
    lock = open(os.path.join(CACHE, f".lock-{key}"), "w")
    fcntl.flock(lock, fcntl.LOCK_EX)
    try:
        if os.path.exists(so):
            return so
        scratch = tempfile.mkdtemp(prefix="vf-cppbuild-")
        try:
            # copy the sources so that a half-edited tree cannot change under cmake
            src_copy = os.path.join(scratch, "src")
            os.makedirs(os.path.join(src_copy, "src", "fandango", "language"))
            shutil.copy(os.path.join(repo, "CMakeLists.txt"), src_copy)
            shutil.copytree(
                os.path.join(repo, "src", "fandango", "language", "cpp_parser"),
                os.path.join(src_copy, "src", "fandango", "language", "cpp_parser"),
            )
            bdir = os.path.join(scratch, "build")
            os.makedirs(bdir)
            py = os.environ.get("VERIF_PYTHON", "/venv/bin/python")
            cfg = [
                "cmake", src_copy,
                "-DSKBUILD_PROJECT_NAME=fandango_fuzzer",
                "-DSKBUILD_PROJECT_VERSION=1.1.1",
                f"-DPython3_EXECUTABLE={py}",
                "-DCMAKE_BUILD_TYPE=Release",
            ]
            if sanitize:
                flags = "-fsanitize=address,undefined -fno-omit-frame-pointer -g -O1"
                cfg += [
                    "-DCMAKE_CXX_COMPILER=clang++",
                    f"-DCMAKE_CXX_FLAGS={flags}",
                    f"-DCMAKE_SHARED_LINKER_FLAGS={flags}",
                    f"-DCMAKE_MODULE_LINKER_FLAGS={flags} -shared-libasan",
                    "-DCMAKE_INTERPROCEDURAL_OPTIMIZATION=OFF",
                ]
            t0 = time.time()
            r = subprocess.run(cfg, cwd=bdir, capture_output=True, text=True, timeout=timeout)
            if r.returncode != 0:
                sys.stderr.write("cmake configure failed:\n" + r.stdout[-3000:] + r.stderr[-3000:])
                return None
            r = subprocess.run(["make", "-j16"], cwd=bdir, capture_output=True, text=True, timeout=timeout)
            if r.returncode != 0:
                sys.stderr.write("make failed:\n" + r.stdout[-3000:] + r.stderr[-3000:])
                return None
            built = None
            for fn in os.listdir(bdir):
                if fn.startswith("sa_fandango_cpp_parser") and fn.endswith(".so"):
                    built = os.path.join(bdir, fn)
            if built is None:
                sys.stderr.write("no .so produced\n")
                return None
            os.makedirs(outdir, exist_ok=True)
            tmp = so + ".tmp"
            shutil.copy(built, tmp)
            os.replace(tmp, so)
            with open(os.path.join(outdir, "BUILD_INFO"), "w") as f:
                f.write(f"built from {repo} in {time.time()-t0:.1f}s sanitize={sanitize}\n")
            return so
        finally:
            shutil.rmtree(scratch, ignore_errors=True)
    finally:
        fcntl.flock(lock, fcntl.LOCK_UN)
        lock.close()


def load_extension(path):
    import importlib.machinery
    import importlib.util

    name = "fandango.language.parser.sa_fandango_cpp_parser"
    loader = importlib.machinery.ExtensionFileLoader(name, path)
    spec = importlib.util.spec_from_file_location(name, path, loader=loader)
    mod = importlib.util.module_from_spec(spec)
    loader.exec_module(mod)
    return mod


if __name__ == "__main__":
    p = ensure_built(sanitize="--asan" in sys.argv)
    print(p)
    sys.exit(0 if p else 1)
