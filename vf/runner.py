"""Entry point: schedules worker processes, folds verdicts, writes evidence."""
import argparse
import hashlib
import importlib
import json
import os
import subprocess
import sys
import tempfile
import time
from collections import Counter

VERIF = os.path.dirname(os.path.dirname(os.path.abspath(__file__)))
NPROC = int(os.environ.get("VERIF_JOBS", "16"))


def load_known():
    p = os.path.join(VERIF, "known_findings.json")
    if not os.path.exists(p):
        return {}
    with open(p) as f:
        data = json.load(f)
    out = {}
    for e in data.get("findings", []):
        out.setdefault(e["property"], {})[e["key"]] = e
    return out


def write_evidence(prop, obj):
    # runs against a scratch copy of the repository (VERIF_REPO, used for seeded-change trials) must not overwrite
    # the evidence of the registered checks, which is about /repo itself
    sub = "evidence" if os.path.realpath(os.environ.get("VERIF_REPO", "/repo")) == "/repo" else os.path.join(".cache", "evidence-scratch")
    os.makedirs(os.path.join(VERIF, sub), exist_ok=True)
    p = os.path.join(VERIF, sub, f"{prop}.json")
    tmp = p + ".tmp"
    with open(tmp, "w") as f:
        json.dump(obj, f, indent=1, default=repr)
    os.replace(tmp, p)


def do_replay(prop, path):
    from vf import bootstrap

    mod = importlib.import_module(f"properties.{prop.lower()}")
    bootstrap.bootstrap(need_cpp=getattr(mod, "NEED_CPP", True))
    from vf import hooks

    hooks.silence_logger()
    hooks.install_print_exception_hook()
    if hasattr(mod, "setup"):
        mod.setup()
    with open(path) as f:
        rep = json.load(f)
    res = mod.run_case(rep["case"])
    print(json.dumps(res, indent=1, default=repr)[:6000])
    if res.get("status") == "violation":
        print(f"VIOLATION property={prop} replay={path}")
        return 1
    return 0


def main():
    ap = argparse.ArgumentParser()
    ap.add_argument("prop")
    ap.add_argument("--tier", default=os.environ.get("VERIF_TIER", "quick"))
    ap.add_argument("--replay")
    ap.add_argument("--jobs", type=int, default=NPROC)
    args = ap.parse_args()
    prop = args.prop.upper()
    if args.replay:
        sys.exit(do_replay(prop, args.replay))
    tier = args.tier
    seed = int(os.environ.get("VERIF_SEED", "0"))
    t0 = time.time()
    mod = importlib.import_module(f"properties.{prop.lower()}")
    if hasattr(mod, "prepare"):
        # things that must exist before workers start (e.g. the C++ build)
        mod.prepare(tier)
    else:
        from vf import cppbuild

        if getattr(mod, "NEED_CPP", True):
            cppbuild.ensure_built()
    jobs = args.jobs
    tmpd = tempfile.mkdtemp(prefix=f"vf-{prop}-")
    procs = []
    env = dict(os.environ)
    env["PYTHONHASHSEED"] = "0"
    env["PYTHONPATH"] = VERIF
    env.pop("FANDANGO_RAISE_ALL_EXCEPTIONS", None)
    py = os.environ.get("VERIF_PYTHON", "/venv/bin/python")
    for s in range(jobs):
        out = os.path.join(tmpd, f"out{s}.jsonl")
        err = open(os.path.join(tmpd, f"err{s}.txt"), "w")
        p = subprocess.Popen(
            [py, "-u", "-m", "vf.worker", prop, tier, str(seed), str(s), str(jobs), out],
            cwd=VERIF, env=env, stdout=err, stderr=err,
        )
        procs.append((p, out, err))
    deadline = time.time() + mod.TIMEOUTS[tier][1]
    watchdog_fired = 0
    for p, out, err in procs:
        left = max(1.0, deadline - time.time())
        try:
            p.wait(timeout=left)
        except subprocess.TimeoutExpired:
            p.kill()
            p.wait()
            watchdog_fired += 1
        err.close()
    # fold
    results = []
    fatal = []
    planned = 0
    done_workers = 0
    hookc = Counter()
    for s, (p, out, err) in enumerate(procs):
        if not os.path.exists(out):
            fatal.append(f"worker {s}: no output")
            continue
        with open(out) as f:
            for line in f:
                try:
                    o = json.loads(line)
                except Exception:
                    continue
                if "fatal" in o:
                    fatal.append(f"worker {s}: {o['fatal']}\n{o.get('trace','')}")
                elif "planned" in o:
                    planned += o["planned"]
                elif o.get("done"):
                    done_workers += 1
                    hookc.update(o.get("hooks", {}))
                else:
                    results.append(o)
        if p.returncode not in (0, None) and p.returncode != -9:
            with open(os.path.join(tmpd, f"err{s}.txt")) as f:
                tail = f.read()[-1500:]
            if p.returncode != 3:
                fatal.append(f"worker {s} exit {p.returncode}: {tail}")
    known = load_known().get(prop, {})
    stats = Counter()
    status = Counter()
    distinct = set()
    distinct_extra = 0
    samples = []
    violations = []
    known_seen = {}
    inconclusive_reasons = Counter()
    inconclusive_keys = []
    for r in results:
        status[r["status"]] += 1
        for k, v in (r.get("stats") or {}).items():
            if isinstance(v, (int, float)):
                stats[k] += v
        if r.get("nontrivial"):
            if "distinct_count" in r:
                # the case counted its own distinct non-trivial sub-cases (disjoint across cases by construction)
                distinct_extra += int(r["distinct_count"])
            else:
                for dk in r.get("distinct_keys") or [r.get("distinct_key", r.get("case"))]:
                    distinct.add(json.dumps(dk, sort_keys=True, default=repr))
        if r.get("sample") is not None and len(samples) < 6:
            samples.append(r["sample"])
        if r["status"] == "inconclusive":
            inconclusive_reasons[str(r.get("reason"))[:80]] += 1
            if len(inconclusive_keys) < 12:
                inconclusive_keys.append([r.get("case"), str(r.get("reason"))[:60]])
        for v in r.get("violations") or []:
            mech = v.get("mech")
            # several mechanisms may explain one witness ("a+b"): all of them must be listed
            parts = mech.split("+") if isinstance(mech, str) and mech else []
            if parts and all(p_ in known for p_ in parts):
                for p_ in parts:
                    known_seen.setdefault(p_, []).append(v)
            else:
                violations.append((r, v))
    if hasattr(mod, "fold"):
        # property-specific global checks over all results (e.g. pairwise comparisons)
        extra = mod.fold(results, tier, seed)
        for v in extra.get("violations", []):
            mech = v.get("mech")
            parts = mech.split("+") if isinstance(mech, str) and mech else []
            if parts and all(p_ in known for p_ in parts):
                for p_ in parts:
                    known_seen.setdefault(p_, []).append(v)
            else:
                violations.append(({"case": v.get("case"), "case_full": v.get("case_full")}, v))
        for k, v in (extra.get("stats") or {}).items():
            stats[k] += v
    wall = time.time() - t0
    reported = len(results)
    missing = planned - reported
    n_incon = status["inconclusive"] + status["skipped-budget"] + max(0, missing)
    evaluations = int(stats.get("evaluations", 0)) or (reported - status["skipped-budget"])
    coverage = {
        "evaluations": evaluations,
        "distinct_nontrivial": len(distinct) + distinct_extra,
        "rule": mod.RULE,
        "samples": samples,
        "cases_planned": planned,
        "cases_reported": reported,
        "case_status": dict(status),
        "inconclusive_cases": n_incon,
        "inconclusive_reasons": dict(inconclusive_reasons.most_common(8)),
        "inconclusive_case_keys": inconclusive_keys,
        "observed": {k: v for k, v in sorted(stats.items())},
        "hook_calls": dict(hookc),
        "known_findings_reobserved": {k: len(v) for k, v in known_seen.items()},
        "known_finding_examples": {k: v[0].get("what") for k, v in known_seen.items()},
        "workers": jobs,
        "workers_finished": done_workers,
        "worker_watchdogs_fired": watchdog_fired,
    }
    if getattr(mod, "EXHAUSTIVE", None):
        coverage["exhaustive"] = bool(mod.EXHAUSTIVE.get(tier)) and n_incon == 0
        coverage["exhaustive_over"] = mod.EXHAUSTIVE.get("what", "")
    if getattr(mod, "EXTRA_COVERAGE", None):
        coverage.update(mod.EXTRA_COVERAGE(stats, results, tier))
    ev = {
        "property_id": prop,
        "tier": tier,
        "seed": seed,
        "level": mod.LEVEL,
        "coverage": coverage,
        "assumptions": getattr(mod, "ASSUMPTIONS", []),
        "wall_s": round(wall, 2),
        "violations": len(violations),
    }
    # verdict
    rc = 0
    lines = []
    for k, vs in sorted(known_seen.items()):
        lines.append(f"KNOWN-FINDING: property={prop} {k}: {known[k]['what']} (re-observed {len(vs)}x, e.g. {str(vs[0].get('what'))[:160]})")
    if violations:
        rc = 1
        os.makedirs(os.path.join(VERIF, "replays", prop), exist_ok=True)
        seen_paths = set()
        for r, v in violations[:20]:
            case = r.get("case_full") or {"key": r.get("case")}
            blob = json.dumps({"case": case, "v": v.get("what")}, sort_keys=True, default=repr)
            h = hashlib.sha1(blob.encode()).hexdigest()[:12]
            path = os.path.join("replays", prop, f"{h}.json")
            if path in seen_paths:
                continue
            seen_paths.add(path)
            with open(os.path.join(VERIF, path), "w") as f:
                json.dump({"property": prop, "tier": tier, "seed": seed, "case": case, "violation": v}, f, indent=1, default=repr)
            lines.append(f"VIOLATION property={prop} replay={path}")
            lines.append(f"  what: {str(v.get('what'))[:400]}")
        if len(violations) > 20:
            lines.append(f"  (+{len(violations)-20} more violations)")
    else:
        mins = getattr(mod, "MIN", {}).get(tier, {})
        reasons = []
        if fatal:
            reasons.append("worker failure: " + fatal[0][:300])
        if reported - n_incon < mins.get("cases", 1):
            reasons.append(f"only {reported - n_incon} conclusive cases (< {mins.get('cases', 1)})")
        if len(distinct) + distinct_extra < mins.get("nontrivial", 2):
            reasons.append(f"only {len(distinct) + distinct_extra} distinct non-trivial cases (< {mins.get('nontrivial', 2)})")
        for k, need in (mins.get("observed") or {}).items():
            if stats.get(k, 0) < need:
                reasons.append(f"monitor counter {k}={stats.get(k, 0)} < {need}")
        for k, need in (mins.get("hooks") or {}).items():
            if hookc.get(k, 0) < need:
                reasons.append(f"hook {k} called {hookc.get(k, 0)}x < {need}")
        if planned and n_incon > max(mins.get("max_inconclusive", 0), planned * mins.get("max_inconclusive_frac", 0.2)):
            reasons.append(f"{n_incon}/{planned} cases inconclusive: {dict(inconclusive_reasons.most_common(3))}")
        if reasons:
            rc = 2
            lines.append(f"INCONCLUSIVE property={prop} reason={'; '.join(reasons)}")
    ev["verdict"] = {0: "held-on-observed", 1: "violated", 2: "inconclusive"}[rc]
    write_evidence(prop, ev)
    for l in lines:
        print(l)
    print(
        f"{prop} {tier} seed={seed}: {ev['verdict']}; cases={reported}/{planned} "
        f"nontrivial-distinct={len(distinct) + distinct_extra} evaluations={evaluations} inconclusive={n_incon} "
        f"known={sum(len(v) for v in known_seen.values())} wall={wall:.1f}s"
    )
    if fatal and rc != 2:
        print("worker problems:", fatal[0][:500])
    try:
        import shutil

        shutil.rmtree(tmpd, ignore_errors=True)
    except Exception:
        pass
    sys.exit(rc)


if __name__ == "__main__":
    main()
