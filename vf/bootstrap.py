"""Make the *working tree* of the repository the code under test.

/venv has a site-packages copy of fandango; every harness process must import
$VERIF_REPO/src instead and refuse to run otherwise.  Production mode: the
swallowed-exception paths are the ones users run, so FANDANGO_RAISE_ALL_EXCEPTIONS
is unset.  The C++ front end is taken from a build of the current sources.
"""
import os
import sys

GUARD = "FANDANGO_VERIF"
_state = {"done": False, "cpp": None}


class Inconclusive(Exception):
    pass


def repo_root():
    return os.environ.get("VERIF_REPO", "/repo")


def bootstrap(need_cpp=True):
    if _state["done"]:
        return _state
    os.environ.pop("FANDANGO_RAISE_ALL_EXCEPTIONS", None)
    os.environ.pop("FANDANGO_RUN_BEARTYPE", None)
    os.environ[GUARD] = "1"
    src = os.path.join(repo_root(), "src")
    if src in sys.path:
        sys.path.remove(src)
    sys.path.insert(0, src)
    for m in list(sys.modules):
        if m == "fandango" or m.startswith("fandango."):
            raise Inconclusive("fandango imported before bootstrap")
    cpp = None
    if need_cpp:
        from vf import cppbuild

        so = cppbuild.ensure_built()
        if so is not None:
            cpp = cppbuild.load_extension(so)
            sys.modules["fandango.language.parser.sa_fandango_cpp_parser"] = cpp
    import warnings

    warnings.filterwarnings("ignore")
    import fandango  # noqa

    if not os.path.abspath(fandango.__file__).startswith(os.path.abspath(src) + os.sep):
        raise Inconclusive(f"fandango imported from {fandango.__file__}, not {src}")
    from fandango.language.parser import sa_fandango

    if cpp is not None:
        sa_fandango.sa_fandango_cpp_parser = cpp
        sa_fandango.USE_CPP_IMPLEMENTATION = True
    else:
        sa_fandango.USE_CPP_IMPLEMENTATION = False
    import logging
    from fandango.logger import LOGGER

    LOGGER.setLevel(logging.CRITICAL)
    _state["done"] = True
    _state["cpp"] = cpp
    return _state
