"""Generator of protocol grammars (message-level structure over party-annotated message nonterminals)."""
import random


def rand_structure(rng, msgs, depth):
    """expression over message references: ("msg", i) | ("nt", name) | seq | alt | rep"""
    r = rng.random()
    if depth <= 0 or r < 0.35:
        return ("msg", rng.randrange(len(msgs)))
    if r < 0.6:
        return ("seq", [rand_structure(rng, msgs, depth - 1) for _ in range(rng.randint(2, 3))])
    if r < 0.8:
        return ("alt", [rand_structure(rng, msgs, depth - 1) for _ in range(rng.randint(2, 3))])
    style = rng.choice(["*", "+", "?", "{n}", "{n,m}", "{n,}"])
    body = rand_structure(rng, msgs, depth - 1)
    if style == "*":
        return ("rep", body, 0, None, "*")
    if style == "+":
        return ("rep", body, 1, None, "+")
    if style == "?":
        return ("rep", body, 0, 1, "?")
    if style == "{n}":
        n = rng.randint(1, 3)
        return ("rep", body, n, n, "{n}")
    if style == "{n,m}":
        a = rng.randint(0, 2)
        return ("rep", body, a, a + rng.randint(1, 2), "{n,m}")
    return ("rep", body, rng.randint(0, 2), None, "{n,}")


def to_text(e, msgs, helper_rules, prec=0):
    k = e[0]
    if k == "msg":
        s, r, name = msgs[e[1]]
        return f"<{s}:{r}:{name}>" if r else f"<{s}:{name}>"
    if k == "nt":
        return e[1]
    if k == "seq":
        t = " ".join(to_text(c, msgs, helper_rules, 1) for c in e[1])
        return f"({t})" if prec > 1 else t
    if k == "alt":
        t = " | ".join(to_text(c, msgs, helper_rules, 1) for c in e[1])
        return f"({t})" if prec > 0 else t
    if k == "rep":
        body = to_text(e[1], msgs, helper_rules, 2)
        if e[1][0] == "rep":
            body = f"({body})"
        st = e[4]
        if st in "*+?":
            return body + st
        if st == "{n}":
            return f"{body}{{{e[2]}}}"
        if st == "{n,}":
            return f"{body}{{{e[2]},}}"
        return f"{body}{{{e[2]},{e[3]}}}"
    raise ValueError(k)


def nullable_guess(e):
    k = e[0]
    if k in ("msg", "nt"):
        return False
    if k == "seq":
        return all(nullable_guess(c) for c in e[1])
    if k == "alt":
        return any(nullable_guess(c) for c in e[1])
    return e[2] == 0 or nullable_guess(e[1])


def no_nullable_under_rep(e):
    k = e[0]
    if k in ("msg", "nt"):
        return True
    if k in ("seq", "alt"):
        return all(no_nullable_under_rep(c) for c in e[1])
    if nullable_guess(e[1]) and (e[3] is None or e[3] > 1):
        return False
    return no_nullable_under_rep(e[1])


def protocol_spec(rng, nparties=None, nmsgs=None, depth=3):
    parties = ["Alice", "Bob", "Carol", "Dave"][: (nparties or rng.randint(2, 4))]
    k = nmsgs or rng.randint(2, 5)
    msgs = []
    for i in range(k):
        s = rng.choice(parties)
        r = rng.choice([p for p in parties if p != s] + [None])
        msgs.append((s, r, f"m{i}"))
    # the same message type used with another recipient / another sender: only the party annotation tells the uses apart
    for i in range(k):
        s, r, name = msgs[i]
        if len(parties) >= 3 and rng.random() < 0.3:
            if rng.random() < 0.7:
                others = [p for p in parties if p != s and p != r]
                msgs.append((s, rng.choice(others), name))
            else:
                others = [p for p in parties if p != s and p != r]
                msgs.append((rng.choice(others), r, name))
    k = len(msgs)
    # two-level structure through a non-message nonterminal
    for _ in range(50):
        top = rand_structure(rng, msgs, depth)
        sub = rand_structure(rng, msgs, depth - 1)
        # splice a reference to <sub> somewhere in top with some probability
        use_sub = rng.random() < 0.6
        if use_sub:
            top = ("seq", [top, ("nt", "<sub>")]) if rng.random() < 0.5 else ("alt", [top, ("seq", [("nt", "<sub>"), ("msg", rng.randrange(k))])])
        if no_nullable_under_rep(top) and no_nullable_under_rep(sub):
            break
    lines = []
    modes = {}
    for pn in parties:
        modes[pn] = "OPEN" if (pn == parties[0] or rng.random() < 0.6) else "EXTERNAL"
        lines.append(f"class {pn}(FandangoParty):\n    def __init__(self):\n        super().__init__(connection_mode=ConnectionMode.{modes[pn]})\n"
                     f"    def send(self, message, recipient):\n        pass\n    def start(self):\n        pass\n    def stop(self):\n        pass\n")
    lines.append("<start> ::= " + to_text(top, msgs, {}))
    if use_sub:
        lines.append("<sub> ::= " + to_text(sub, msgs, {}))
    done = set()
    for i, (s, r, name) in enumerate(msgs):
        if name in done:
            continue
        done.add(name)
        lines.append(f"<{name}> ::= '{name}' <payload{i}>")
        lines.append(f"<payload{i}> ::= r'[0-9]{{2}}'")
    return "\n".join(lines) + "\n", parties, msgs
