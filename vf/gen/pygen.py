"""Corpus of Python programs for C08: a construct table (systematic parameter-kind combinations,
lambdas, comprehensions, f-strings, literals, operators, control flow, imports) and statements /
expressions harvested from real Python files."""
import ast
import glob
import itertools
import os
import random

TABLE = [
    "x = lambda a, b=2: a + b", "x = lambda: 1", "x = lambda *a, **k: (a, k)", "x = lambda a, /, b, *, c=1: a",
    "x = 'a' 'b'", "x = b'a' b'b'", "x = f'{1!r:>{3}}' 'tail'", "x = f'{a}{b!s}{c:>10}'", "x = f'{a + 1:{w}.{p}}'", "x = f\"{'q'}\"",
    "x = [i for i in range(3) if i if i > 1]", "x = {i: j for i in a for j in b if j}", "x = {i for i in a}", "x = (i for i in a)",
    "x = [i async for i in a]" if False else "x = [j for i in a for j in i]",
    "x = 1 if 2 else 3", "x = a < b < c", "x = a < b == c != d", "x = not a", "x = -a ** -b", "x = a[1:2, ::3]", "x = a[1,]", "x = a[1, 2]", "x = a[:]",
    "x = a[::2]", "x = a[b:c:d]", "x, y = 1, 2", "x = y = 3", "x: int = 3", "x: int", "(x) = 1", "x, *y = z", "[x, y] = z",
    "for i in range(3):\n    pass\nelse:\n    pass", "while True:\n    break", "while a:\n    continue\nelse:\n    pass",
    "try:\n    pass\nexcept ValueError as e:\n    pass\nfinally:\n    pass", "try:\n    pass\nexcept (A, B):\n    pass\nelse:\n    pass",
    "try:\n    pass\nexcept* ValueError:\n    pass", "with open('f') as f, open('g'):\n    pass", "with (a as b, c as d):\n    pass",
    "class A(B, metaclass=C):\n    x = 1", "class A:\n    def f(self):\n        return 1", "@dec\ndef f():\n    yield 1", "@a.b(c)\nclass D:\n    pass",
    "import a.b as c, d", "from . import x", "from ..y import z as w", "from a import (b, c)", "from a import *",
    "x = (yield)", "x = {**a, 'b': 1}", "x = {1, 2}", "x = f(*a, **b, c=1)", "x = f(a, *b, c, **d)", "async def f():\n    await g()",
    "async def f():\n    async with a as b:\n        pass", "async def f():\n    async for i in a:\n        pass",
    "global x", "def f():\n    nonlocal_ = 1", "del x, y[0]", "assert x, 'm'", "assert x", "raise E from e", "raise", "raise E",
    "x = (a := 1)", "x += 1", "x -= 1", "x *= 2", "x /= 2", "x //= 2", "x %= 2", "x **= 2", "x >>= 1", "x <<= 1", "x &= 1", "x |= 1", "x ^= 1", "x @= y",
    "x = 1_000", "x = 0x10 + 0o17 + 0b11", "x = 1e3 + 1.5e-3 + .5 + 5.", "x = 1j + 2.5j", "x = 0xFF_FF", "x = ...", "x = None", "x = True and False",
    "x = a if b else c if d else e", "if a:\n    pass\nelif b:\n    pass\nelse:\n    pass", "x = r'\\d' + '\\n'", "x = '''multi\nline'''",
    "x = rb'\\x00' + b'\\x00'", "x = 'it''s'", "x = \"q\\\"q\"", "x = u'u'", "x = a @ b", "x = a is not b", "x = a not in b", "x = a is b", "x = a in b",
    "x = a << b >> c", "x = a & b | c ^ d", "x = a // b % c", "x = ~a", "x = +a", "x = a ** b ** c", "x = (a, )", "x = ()", "x = []", "x = {}",
    "x = a.b.c", "x = a.b(c).d[e]", "x = a(b)(c)", "x = a or b and not c", "x = (a or b) and c", "x = a - (b - c)", "x = a / (b * c)", "x = -(-a)",
    "x = a < (b < c)", "x = (a, b), c", "x = a, (b, c)", "x = [*a, *b]", "x = (*a, b)", "x = {*a}", "x = lambda: (yield)",
    "def f(a, b=1):\n    return a + b", "def f(*, a): pass", "def f(a: int = 1, *b: str, c: int, **d: float) -> None: pass", "def f(a, /): pass",
    "def f(a=1, /, b=2): pass", "def f(a, /, b, c=2, *args, d, e=3, **kw):\n    return a", "def f(*args): pass", "def f(**kw): pass", "def f(a, *, b): pass",
    "def f(a, b=1, *, c, d=2): pass", "def f(a, b=1, *args, c=2, **kw): pass", "def f(a=[], b={}): pass", "def f(a, b=(1, 2)): pass",
    "match x:\n    case 1:\n        pass\n    case _:\n        pass", "type X = int", "def f[T](a: T) -> T:\n    return a",
    "x = 1; y = 2", "pass", "x = a if b else (lambda: c)", "print(a, b, sep='')", "x = a[b][c]", "x = not a == b", "x = not (a == b)", "x = a == (not b)",
    "x = 'a' if b else 'c' 'd'", "x = [1, 2, 3][0]", "x = {'a': 1}['a']", "x = \"%s\" % a", "x = a % b % c", "return_ = 1",
    "x = 10 ** -2", "x = (1).real", "x = 1 .real", "x = a[-1]", "x = a[-1:]", "x = a[:-1]", "x = a[::-1]", "x = a[1:2:3, 4]",
]


def compound_variants():
    """every combination of the optional clauses of compound statements, each clause with a body of its own
    (a dropped or misplaced clause changes the AST)"""
    import itertools

    out = []
    handlers = [[], ["except ValueError:\n    h1 = 1"], ["except ValueError as e:\n    h1 = e", "except (KeyError, IndexError):\n    h2 = 2"],
                ["except:\n    h0 = 0"], ["except A:\n    h1 = 1", "except B as b:\n    h2 = b", "except:\n    h3 = 3"]]
    for hs, has_else, has_fin in itertools.product(handlers, [False, True], [False, True]):
        if not hs and (has_else or not has_fin):
            continue
        t = "try:\n    body = 1\n" + "".join(h + "\n" for h in hs)
        if has_else:
            t += "else:\n    other = 2\n"
        if has_fin:
            t += "finally:\n    fin = 3\n"
        out.append(t.rstrip("\n"))
        out.append("def f():\n" + "".join("    " + l + "\n" for l in t.rstrip("\n").split("\n")).rstrip("\n"))
    for head in ["for i in a:", "while a:", "for i, j in a:", "for i in a, b:"]:
        for has_else in (False, True):
            for inner in ("    x = i", "    if i:\n        break\n    x = 1", "    continue"):
                out.append(head + "\n" + inner + ("\nelse:\n    y = 2" if has_else else ""))
    for n_elif, has_else in itertools.product([0, 1, 2], [False, True]):
        t = "if a:\n    x = 0\n" + "".join(f"elif b{k}:\n    x = {k + 1}\n" for k in range(n_elif)) + ("else:\n    x = 9\n" if has_else else "")
        out.append(t.rstrip("\n"))
    for items in ["a", "a as b", "a, c", "a as b, c as d", "a as b, c, e as f", "a() as (b, c)", "a as b.c", "a as b[0]"]:
        out.append(f"with {items}:\n    x = 1")
    for bases, dec in itertools.product(["", "(B)", "(B, C)", "(B, metaclass=M)", "(*bs, **kw)"], ["", "@d\n", "@d1\n@d2(1)\n"]):
        out.append(f"{dec}class A{bases}:\n    x = 1\n    def m(self):\n        return self.x")
    for pat in ["1", "'s'", "[a, b]", "[a, *rest]", "{'k': v}", "{'k': v, **rest}", "P(x=1)", "P(1, y=2)", "a | b", "(1 | 2) as n", "_", "x if x > 1", "None", "[1, [2, _]]"]:
        guard = ""
        if " if " in pat:
            pat, guard = pat.split(" if ")
            guard = " if " + guard
        out.append(f"match v:\n    case {pat}{guard}:\n        r = 1\n    case _:\n        r = 2")
    return out


def def_variants():
    """every combination of parameter kinds with/without defaults"""
    out = []
    kinds = {
        "posonly": ["", "a, /", "a, b=1, /", "a=0, /"],
        "pos": ["", "c", "c, d=2", "d=2"],
        "var": ["", "*args", "*"],
        "kwonly": ["", "e", "e=3", "e, f=4", "f=4, e"],
        "varkw": ["", "**kw"],
    }
    for po, p, v, ko, vk in itertools.product(*kinds.values()):
        if v == "*" and not ko:
            continue
        if ko and not v:
            continue
        # a parameter without default may not follow one with default (positional part)
        if ("=" in po) and p and not p.startswith("d=") and "=" not in p.split(",")[0]:
            continue
        if po.endswith("b=1, /") and p.startswith("c") and not p.startswith("c=") and p != "":
            continue
        parts = [x for x in (po, p, v, ko, vk) if x]
        sig = ", ".join(parts)
        src = f"def f({sig}):\n    return 1"
        try:
            ast.parse(src)
        except SyntaxError:
            continue
        out.append(src)
        lam = f"x = lambda {sig}: 1" if sig else "x = lambda: 1"
        try:
            ast.parse(lam)
            out.append(lam)
        except SyntaxError:
            pass
    return out


def harvested_files(repo):
    pats = [os.path.join(repo, "src/fandango/**/*.py"), os.path.join(repo, "tests/*.py"), os.path.join(repo, "evaluation/**/*.py"),
            "/usr/lib/python3*/json/*.py", "/usr/lib/python3*/textwrap.py", "/usr/lib/python3*/string.py", "/usr/lib/python3*/bisect.py",
            "/usr/lib/python3*/heapq.py", "/usr/lib/python3*/fnmatch.py", "/usr/lib/python3*/shlex.py", "/usr/lib/python3*/colorsys.py",
            "/usr/lib/python3*/fractions.py", "/usr/lib/python3*/statistics.py"]
    out = []
    for p in pats:
        for f in sorted(glob.glob(p, recursive=True)):
            if "/parser/Fandango" in f or "/converters/antlr/ANTLR" in f or "cpp_parser" in f:
                continue
            out.append(f)
    return out


def statements_of(path, limit=400):
    """top-level statements and the statements of function/class bodies, each as self-contained source"""
    try:
        tree = ast.parse(open(path, encoding="utf-8", errors="replace").read())
    except Exception:
        return []
    out = []

    def add(node):
        try:
            src = ast.unparse(node)
        except Exception:
            return
        if 0 < len(src) < 1500:
            out.append(src)

    for node in tree.body:
        add(node)
    for node in ast.walk(tree):
        if isinstance(node, (ast.FunctionDef, ast.AsyncFunctionDef)):
            for st in node.body:
                if not isinstance(st, (ast.Return, ast.Nonlocal, ast.Global)) and not any(
                        isinstance(x, (ast.Return, ast.Yield, ast.YieldFrom, ast.Await, ast.Nonlocal, ast.Break, ast.Continue)) for x in ast.walk(st)):
                    add(st)
    return out[:limit]


def expressions_of(src, limit=6):
    """sub-expressions of a statement that are usable on their own (no yield/await/lambda-free restriction here)"""
    try:
        tree = ast.parse(src)
    except Exception:
        return []
    out = []
    for node in ast.walk(tree):
        if isinstance(node, ast.expr) and not isinstance(node, (ast.Name, ast.Constant, ast.Starred, ast.Yield, ast.YieldFrom, ast.Await, ast.NamedExpr)):
            if isinstance(getattr(node, "ctx", None), (ast.Store, ast.Del)):
                continue
            if any(isinstance(x, (ast.Yield, ast.YieldFrom, ast.Await, ast.NamedExpr, ast.Starred)) for x in ast.walk(node)):
                continue
            try:
                s = ast.unparse(node)
            except Exception:
                continue
            if "\n" in s or len(s) > 200:
                continue
            out.append(s)
    return out[:limit]
