"""Inputs for parser workloads: words of the reference language, near misses, noise."""
import random


def to_input(word, binary):
    """model word (str, or bit string for binary grammars) -> what fandango's parser is fed"""
    if not binary:
        return word
    if len(word) % 8:
        return None
    return bytes(int(word[i:i + 8], 2) for i in range(0, len(word), 8))


def from_input(inp, binary):
    if not binary:
        return inp
    return "".join(f"{b:08b}" for b in inp)


def alphabet(model):
    """symbols (chars or byte values) occurring in the grammar + one foreign one"""
    from vf.ref import regex_table

    chars = set()
    for e in model.all_exprs():
        if e[0] == "lit":
            v = e[1]
            if isinstance(v, bytes):
                v = v.decode("latin-1")
            elif model.binary:
                v = v.encode("utf-8").decode("latin-1")
            chars.update(v)
        elif e[0] == "regex":
            for s in model.regex_samples(e[1], e[2]):
                chars.update(s if not (model.binary and not e[2]) else s.encode("utf-8").decode("latin-1"))
        elif e[0] == "bit":
            chars.update("\x00\xff\x80\x01")
    chars = sorted(chars)
    foreign = next(c for c in "~@%!" if c not in chars)
    return chars[:12] + [foreign]


def near_misses(word, rng, alpha, n=8):
    """edits of a valid word (text: chars; binary: byte strings as latin-1 text)"""
    out = []
    w = word
    for _ in range(n):
        kind = rng.choice(["del", "ins", "sub", "swap", "trunc", "dup", "ext", "case", "case", "neighbour"])
        if kind == "del" and w:
            i = rng.randrange(len(w))
            out.append(w[:i] + w[i + 1:])
        elif kind == "ins":
            i = rng.randrange(len(w) + 1)
            out.append(w[:i] + rng.choice(alpha) + w[i:])
        elif kind == "sub" and w:
            i = rng.randrange(len(w))
            out.append(w[:i] + rng.choice(alpha) + w[i + 1:])
        elif kind == "swap" and len(w) >= 2:
            i = rng.randrange(len(w) - 1)
            out.append(w[:i] + w[i + 1] + w[i] + w[i + 2:])
        elif kind == "trunc" and w:
            out.append(w[:rng.randrange(len(w))])
        elif kind == "dup" and w:
            i = rng.randrange(len(w))
            j = rng.randrange(i, len(w)) + 1
            out.append(w[:j] + w[i:j] + w[j:])
        elif kind == "ext":
            out.append(w + rng.choice(alpha))
        elif kind == "case" and w:
            # the same word with the case of one / all letters swapped
            i = rng.randrange(len(w))
            out.append(w[:i] + w[i].swapcase() + w[i + 1:])
            out.append(w.swapcase())
        elif kind == "neighbour" and w:
            # a character replaced by its successor / predecessor code point
            i = rng.randrange(len(w))
            c2 = chr(max(0, min(0xFF, ord(w[i]) + rng.choice([-1, 1]))))
            out.append(w[:i] + c2 + w[i + 1:])
    return out


def bitflips(inp, rng, n=3):
    out = []
    for _ in range(n):
        if not inp:
            break
        b = bytearray(inp)
        i = rng.randrange(len(b))
        b[i] ^= 1 << rng.randrange(8)
        out.append(bytes(b))
    return out


def all_strings(alpha, max_len):
    out = [""]
    frontier = [""]
    for _ in range(max_len):
        frontier = [p + c for p in frontier for c in alpha]
        out.extend(frontier)
    return out
