"""The repository's own .fan specs as a workload corpus."""
import glob
import os
import re

from vf.bootstrap import repo_root

NONDET = re.compile(r"\b(faker|Faker|time\.|datetime|uuid|urandom|socket|subprocess|os\.environ|getpid|secrets)\b")
IO_HINT = re.compile(r"FandangoParty|<\w+:\w+(:\w+)?>|class \w+\((Network|Connect)")


def spec_files():
    root = repo_root()
    pats = ["tests/resources/*.fan", "docs/*.fan", "demo/*.fan", "evaluation/**/*.fan",
            "src/fandango/converters/**/*.fan", "*.fan"]
    out = []
    for p in pats:
        out.extend(glob.glob(os.path.join(root, p), recursive=True))
    return sorted(set(out))


def read(path):
    with open(path, encoding="utf-8", errors="replace") as f:
        return f.read()


def looks_io(text):
    return IO_HINT.search(text) is not None


def looks_nondeterministic(text):
    return NONDET.search(text) is not None


def load(path, **kw):
    """Fandango object of a harvested spec (includes resolved relative to the file)."""
    from fandango import Fandango

    text = read(path)
    cwd = os.getcwd()
    try:
        os.chdir(os.path.dirname(path))
        return Fandango(text, includes=[os.path.dirname(path)], **kw), text
    finally:
        os.chdir(cwd)


def try_load(path, **kw):
    """(fandango object, text) or (None, reason) when the spec cannot be loaded offline as it stands."""
    import io
    import contextlib

    try:
        with contextlib.redirect_stderr(io.StringIO()), contextlib.redirect_stdout(io.StringIO()):
            return load(path, **kw)
    except Exception as e:  # noqa
        return None, f"{type(e).__name__}: {str(e)[:120]}"


def safe_complete_specs():
    """Harvested specs that are not protocol specs and do not touch the network at load time."""
    out = []
    for f in spec_files():
        text = read(f)
        if looks_io(text) or "import socket" in text or "openai" in text or "requests" in text:
            continue
        out.append(f)
    return out
