"""Generator of .fan grammars from an AST that /verif owns.

The AST is the tuple language of vf.ref.grammar_model (so the reference model
never goes through fandango's spec reader); `to_spec` prints it as .fan text.
A computed repetition carries its bound expression text in the last field:
("rep", e, 0, None, "int(<n>)").
"""
import random
from collections import OrderedDict

from vf.ref import regex_table

NAMES = ["<start>", "<a>", "<b>", "<c>", "<d>", "<e>", "<f>"]


# ------------------------------------------------------------------ printing
def _lit(v):
    return repr(v)


def _regex(p, isbytes):
    # raw string literal; patterns in the table contain no quotes
    q = "'" if "'" not in p else '"'
    assert q not in p
    return ("rb" if isbytes else "r") + q + p + q


def to_text(e, prec=0):
    """prec: 0 = alternative context, 1 = sequence context, 2 = postfix operand"""
    k = e[0]
    if k == "lit":
        return _lit(e[1])
    if k == "regex":
        return _regex(e[1], e[2])
    if k == "bit":
        return str(e[1])
    if k == "nt":
        return e[1]
    if k == "alt":
        s = " | ".join(to_text(c, 1) for c in e[1])
        return f"({s})" if prec > 0 else s
    if k == "seq":
        s = " ".join(to_text(c, 1) for c in e[1])
        return f"({s})" if prec > 1 or (prec == 1 and False) else s
    if k == "rep":
        body = to_text(e[1], 2)
        if e[1][0] == "rep":
            body = f"({body})"
        mn, mx, comp = e[2], e[3], e[4]
        if comp:
            return f"{body}{{{comp}}}"
        style = e[5] if len(e) > 5 else None
        if style is None:
            if (mn, mx) == (0, None):
                style = "*"
            elif (mn, mx) == (1, None):
                style = "+"
            elif (mn, mx) == (0, 1):
                style = "?"
            elif mx is None:
                style = "{n,}"
            elif mn == mx:
                style = "{n}"
            else:
                style = "{n,m}"
        if style in "*+?":
            return body + style
        if style == "{n}":
            return f"{body}{{{mn}}}"
        if style == "{n,}":
            return f"{body}{{{mn},}}"
        if style == "{,m}":
            return f"{body}{{,{mx}}}"
        return f"{body}{{{mn},{mx}}}"
    raise ValueError(k)


def to_spec(rules, generators=None, constraints=(), prelude=""):
    lines = []
    if prelude:
        lines.append(prelude.rstrip("\n"))
    for n, e in rules.items():
        line = f"{n} ::= {to_text(e)}"
        if generators and n in generators:
            line += f" := {generators[n]}"
        lines.append(line)
    for c in constraints:
        lines.append(c if c.startswith(("where", "minimizing", "maximizing")) else "where " + c)
    return "\n".join(lines) + "\n"


# ------------------------------------------------------------------ generation
class Profile:
    def __init__(self, **kw):
        self.kind = kw.get("kind", "text")          # text | bytes | bits | mixed
        self.regex = kw.get("regex", 0.25)          # probability a terminal is a regex
        self.regex_delimited = kw.get("regex_delimited", True)   # C05 class
        self.allow_nullable_under_rep = kw.get("allow_nullable_under_rep", False)
        self.allow_left_rec = kw.get("allow_left_rec", False)
        self.allow_empty_lit = kw.get("allow_empty_lit", False)
        self.recursion = kw.get("recursion", 0.3)
        self.max_nts = kw.get("max_nts", 4)
        self.max_rep = kw.get("max_rep", 4)
        self.non_ascii = kw.get("non_ascii", 0.0)
        self.depth = kw.get("depth", 3)
        self.unbounded = kw.get("unbounded", 0.5)
        self.unit_cycles = kw.get("unit_cycles", False)


TEXT_LITS = ["a", "b", "c", "ab", "x", "y", "0", "1", ";", ",", "-", " ", "hello", "(", ")", "'", '"', "\\", "\n", "\t"]
NONASCII_LITS = ["é", "ß", "€", "日本"]
BYTES_LITS = [b"\x00", b"\x01", b"\xff", b"ab", b"\x80\x81", b"A", b"\n", b"'"]
DELIMS = [";", ",", "|", "#", ":"]


class GrammarGen:
    def __init__(self, rng, profile):
        self.rng = rng
        self.p = profile
        self.features = set()

    def terminal(self, in_binary):
        r, p = self.rng, self.p
        kind = p.kind
        if kind == "mixed":
            kind = r.choice(["text", "bytes", "bits"])
        if kind == "bits":
            # a whole byte of bits so that byte alignment is preserved
            self.features.add("bits")
            return ("seq", tuple(("bit", r.randint(0, 1)) for _ in range(8))) if r.random() < 0.5 else \
                ("seq", (("rep", ("alt", (("bit", 0), ("bit", 1))), 8, 8, None),))
        if r.random() < p.regex:
            if kind == "bytes":
                pat = r.choice(list(regex_table.BYTES_TABLE))
                e = ("regex", pat, True)
                delim = ("lit", b"\x7f") if True else None
                self.features.add("regex-bytes")
                # \x7f is outside every bytes-table alphabet except [\x00-\xff]{2} (fixed length)
            else:
                pat = r.choice(list(regex_table.TABLE))
                e = ("regex", pat, False)
                # the delimiter must lie outside the regex's alphabet (C05's grammar class)
                delim = ("lit", regex_table.DELIM.get(pat, "\x7f"))
                self.features.add("regex")
            if regex_table.may_match_empty(pat):
                self.features.add("regex-may-match-empty")
            if p.regex_delimited:
                return ("seq", (e, delim))
            return e
        if kind == "bytes":
            self.features.add("bytes")
            return ("lit", r.choice(BYTES_LITS))
        if p.allow_empty_lit and r.random() < 0.15:
            self.features.add("empty-literal")
            return ("lit", "")
        if r.random() < p.non_ascii:
            self.features.add("non-ascii")
            return ("lit", r.choice(NONASCII_LITS))
        return ("lit", r.choice(TEXT_LITS))

    def expr(self, idx, n, depth, allow_rec, consumed):
        """expression for nonterminal idx of n; `consumed` = something non-nullable precedes in this sequence"""
        r, p = self.rng, self.p
        if depth <= 0:
            choice = r.choice(["term", "term", "nt"])
        else:
            choice = r.choices(["term", "nt", "seq", "alt", "rep"], weights=[3, 3, 4, 3, 4])[0]
        if choice == "term":
            return self.terminal(False)
        if choice == "nt":
            later = list(range(idx + 1, n))
            if allow_rec and r.random() < p.recursion and (consumed or p.allow_left_rec):
                j = r.randint(0, idx)
                self.features.add("recursion")
                if not consumed:
                    self.features.add("left-recursion")
                return ("nt", NAMES[j])
            if later:
                return ("nt", NAMES[r.choice(later)])
            return self.terminal(False)
        if choice == "seq":
            k = r.randint(2, 3)
            items = []
            c = consumed
            for _ in range(k):
                it = self.expr(idx, n, depth - 1, allow_rec, c)
                items.append(it)
                c = c or not self._nullable_guess(it)
            return ("seq", tuple(items))
        if choice == "alt":
            k = r.randint(2, 3)
            # at least one alternative without recursion keeps the symbol productive
            items = [self.expr(idx, n, depth - 1, False, consumed)]
            for _ in range(k - 1):
                items.append(self.expr(idx, n, depth - 1, allow_rec, consumed))
            r.shuffle(items)
            self.features.add("alt")
            return ("alt", tuple(items))
        # repetition
        body = self.expr(idx, n, depth - 1, False, consumed)
        if self._nullable_guess(body) and not p.allow_nullable_under_rep:
            body = ("seq", (self.terminal(False), body)) if self.p.kind != "bits" else self.terminal(False)
            if self._nullable_guess(body):
                body = ("lit", "z") if self.p.kind in ("text",) else self.terminal(False)
        style = r.choice(["*", "+", "?", "{n}", "{n,m}", "{n,}", "{,m}"])
        self.features.add("rep" + style)
        if style == "*":
            return ("rep", body, 0, None, None, "*")
        if style == "+":
            return ("rep", body, 1, None, None, "+")
        if style == "?":
            return ("rep", body, 0, 1, None, "?")
        if style == "{n}":
            m = r.randint(1, p.max_rep)
            return ("rep", body, m, m, None, "{n}")
        if style == "{n,m}":
            a = r.randint(0, p.max_rep - 1)
            b = r.randint(max(a, 1), p.max_rep)
            if a == b:
                b += 1
            return ("rep", body, a, b, None, "{n,m}")
        if style == "{n,}":
            return ("rep", body, r.randint(0, 3), None, None, "{n,}")
        return ("rep", body, 0, r.randint(1, p.max_rep), None, "{,m}")

    @staticmethod
    def _nullable_guess(e):
        k = e[0]
        if k == "lit":
            return len(e[1]) == 0
        if k == "regex":
            return regex_table.may_match_empty(e[1])
        if k == "bit":
            return False
        if k == "nt":
            return True  # unknown yet: be conservative
        if k == "seq":
            return all(GrammarGen._nullable_guess(c) for c in e[1])
        if k == "alt":
            return any(GrammarGen._nullable_guess(c) for c in e[1])
        if k == "rep":
            return e[2] == 0 or GrammarGen._nullable_guess(e[1])
        return True

    def grammar(self):
        r, p = self.rng, self.p
        n = r.randint(1, p.max_nts)
        rules = OrderedDict()
        for i in range(n):
            rules[NAMES[i]] = self.expr(i, n, p.depth, True, False)
        rules = prune_unreachable(rules)
        return rules


def refs(e, out=None):
    if out is None:
        out = set()
    k = e[0]
    if k == "nt":
        out.add(e[1])
    elif k in ("seq", "alt"):
        for c in e[1]:
            refs(c, out)
    elif k == "rep":
        refs(e[1], out)
    return out


def prune_unreachable(rules, start="<start>"):
    seen, stack = set(), [start]
    while stack:
        x = stack.pop()
        if x in seen or x not in rules:
            continue
        seen.add(x)
        stack.extend(refs(rules[x]))
    return OrderedDict((k, v) for k, v in rules.items() if k in seen)


def strip_style(e):
    """Drop the printing hint so that the model sees canonical 5-tuples."""
    k = e[0]
    if k in ("seq", "alt"):
        return (k, tuple(strip_style(c) for c in e[1]))
    if k == "rep":
        return ("rep", strip_style(e[1]), e[2], e[3], e[4])
    return e


def model_rules(rules):
    # the printing hint (6th field of "rep") is kept: classifiers need to tell `*` from `{0,}`
    return dict(rules)


def is_productive(rules):
    """Every nonterminal derives some finite word."""
    prod = set()

    def ok(e):
        k = e[0]
        if k in ("lit", "regex", "bit"):
            return True
        if k == "nt":
            return e[1] in prod
        if k == "seq":
            return all(ok(c) for c in e[1])
        if k == "alt":
            return any(ok(c) for c in e[1])
        if k == "rep":
            return e[2] == 0 or ok(e[1])
        return False

    changed = True
    while changed:
        changed = False
        for n, e in rules.items():
            if n not in prod and ok(e):
                prod.add(n)
                changed = True
    return len(prod) == len(rules)


def random_grammar(rng, profile, tries=50):
    for _ in range(tries):
        gg = GrammarGen(rng, profile)
        rules = gg.grammar()
        if not is_productive(rules):
            continue
        from vf.ref.grammar_model import RefGrammar

        m = RefGrammar(model_rules(rules))
        f = m.features()
        if not profile.allow_nullable_under_rep and "nullable-body-under-repetition" in f:
            continue
        if not profile.unit_cycles and "nullable-or-unit-derivation-cycle" in f:
            continue
        if not profile.allow_left_rec and has_left_recursion(m):
            continue
        return rules, syntactic_features(rules) | f, m
    raise RuntimeError("no grammar generated")


def has_left_recursion(m):
    nullable, nul = m.nullable_set()

    def first_nts(e):
        k = e[0]
        if k == "nt":
            return {e[1]}
        if k == "alt":
            s = set()
            for c in e[1]:
                s |= first_nts(c)
            return s
        if k == "seq":
            s = set()
            for c in e[1]:
                s |= first_nts(c)
                if not nul(c):
                    break
            return s
        if k == "rep":
            return first_nts(e[1])
        return set()

    edges = {n: first_nts(r) for n, r in m.rules.items()}
    for n in edges:
        seen, stack = set(), list(edges[n])
        while stack:
            x = stack.pop()
            if x == n:
                return True
            if x in seen or x not in edges:
                continue
            seen.add(x)
            stack.extend(edges[x])
    return False


def syntactic_features(rules):
    f = set()

    def walk(e, top):
        k = e[0]
        if k == "lit":
            if isinstance(e[1], bytes):
                f.add("bytes")
            else:
                f.add("text")
                if any(ord(ch) > 127 for ch in e[1]):
                    f.add("non-ascii")
                if e[1] == "":
                    f.add("empty-literal")
        elif k == "regex":
            f.add("regex-bytes" if e[2] else "regex")
        elif k == "bit":
            f.add("bits")
        elif k == "nt":
            f.add("nt")
        elif k in ("seq", "alt"):
            f.add(k)
            if not top:
                f.add("group")
            for c in e[1]:
                walk(c, False)
        elif k == "rep":
            f.add("rep" + (e[5] if len(e) > 5 and e[5] else "{}"))
            if e[4]:
                f.add("computed-repetition")
            if e[1][0] in ("seq", "alt"):
                f.add("postfix-on-group")
            walk(e[1], False)

    for n, e in rules.items():
        walk(e, True)
    names = list(rules)
    for i, (n, e) in enumerate(rules.items()):
        for r_ in refs(e):
            if r_ in names and names.index(r_) <= i:
                f.add("recursion")
    return f


def bitstruct_grammar(rng):
    """Bit fields that do not start on byte boundaries, spread over nested nonterminals,
    followed/preceded by byte-aligned bytes or text terminals. Total length is a multiple of 8."""
    from collections import OrderedDict

    nbytes = rng.randint(1, 3)
    total = 8 * nbytes
    sizes = []
    left = total
    while left > 0:
        s = min(left, rng.randint(1, 7))
        sizes.append(s)
        left -= s
    fields = []
    rules = OrderedDict()
    for i, s in enumerate(sizes):
        kind = rng.choice(["const", "free", "mixed"])
        if kind == "const":
            e = ("seq", tuple(("bit", rng.randint(0, 1)) for _ in range(s))) if s > 1 else ("bit", rng.randint(0, 1))
        elif kind == "free":
            e = ("rep", ("alt", (("bit", 0), ("bit", 1))), s, s, None, "{n}")
        else:
            e = ("seq", (("bit", rng.randint(0, 1)),) + ((("rep", ("alt", (("bit", 0), ("bit", 1))), s - 1, s - 1, None, "{n}"),) if s > 1 else ()))
        fields.append((f"<f{i}>", e))
    # nest fields pairwise into groups
    groups = []
    i = 0
    gi = 0
    while i < len(fields):
        k = rng.randint(1, 3)
        chunk = fields[i:i + k]
        i += k
        gname = f"<g{gi}>"
        gi += 1
        rules_chunk = ("seq", tuple(("nt", n) for n, _ in chunk)) if len(chunk) > 1 else ("nt", chunk[0][0])
        groups.append((gname, rules_chunk))
    items = [("nt", g) for g, _ in groups]
    # a variable-length regex needs a delimiter outside its alphabet before the (free) bits follow
    pre = rng.choice([None, ("lit", b"\x01"), ("lit", "A"), ("seq", (("regex", r"[a-c]+", True), ("lit", b"\x7f")))])
    post = rng.choice([None, ("lit", b"\xff\x00"), ("lit", "zz"), ("rep", ("lit", b"\x7f"), 0, 2, None, "{n,m}")])
    seq = ([pre] if pre else []) + items + ([post] if post else [])
    rules["<start>"] = ("seq", tuple(seq)) if len(seq) > 1 else seq[0]
    for g, e in groups:
        rules[g] = e
    for n, e in fields:
        rules[n] = e
    return rules


def unaligned_bits_grammar(rng):
    """Bit-level grammars whose words need NOT be a whole number of bytes (variable-length bit fields, 9..15-bit words):
    a byte input belongs to the language only if ALL its bits are derived."""
    from collections import OrderedDict

    BIT = ("alt", (("bit", 0), ("bit", 1)))
    rules = OrderedDict()
    shape = rng.choice(["fixed", "range", "plus", "fields", "prefix-byte"])
    if shape == "fixed":
        k = rng.choice([3, 5, 9, 10, 12, 15, 17])
        rules["<start>"] = ("rep", ("nt", "<bit>"), k, k, None, "{n}")
    elif shape == "range":
        a = rng.choice([1, 3, 6, 9])
        rules["<start>"] = ("rep", ("nt", "<bit>"), a, a + rng.choice([2, 5, 9]), None, "{n,m}")
    elif shape == "plus":
        rules["<start>"] = ("rep", ("nt", "<bit>"), 1, None, None, "+")
    elif shape == "fields":
        a = rng.randint(1, 6)
        rules["<start>"] = ("seq", (("nt", "<hd>"), ("rep", ("nt", "<bit>"), 1, rng.choice([5, 9, 12]), None, "{n,m}")))
        rules["<hd>"] = ("seq", tuple(("bit", rng.randint(0, 1)) for _ in range(a))) if a > 1 else ("bit", rng.randint(0, 1))
    else:
        rules["<start>"] = ("seq", (("lit", rng.choice([b"\x01", b"\xa5"])), ("rep", ("nt", "<bit>"), rng.choice([1, 4]), rng.choice([7, 12]), None, "{n,m}")))
    rules["<bit>"] = BIT
    return rules

