"""Generator of constraints (as /verif AST + .fan text) over a few fixed grammars."""
import random

GRAMMARS = {
    "kv": ("<start> ::= <item> (';' <item>)*\n<item> ::= <key> '=' <num>\n<key> ::= <letter>+\n<letter> ::= 'a' | 'b' | 'c'\n"
           "<num> ::= <d>+\n<d> ::= '0' | '1' | '2' | '5'\n",
           {"num": ["<num>", "<d>"], "word": ["<key>", "<letter>", "<item>", "<start>"],
            "children": {"<start>": ["<item>"], "<item>": ["<key>", "<num>"], "<key>": ["<letter>"], "<num>": ["<d>"]}}),
    "rec": ("<start> ::= <a>\n<a> ::= '(' <a> ')' <d> | <d> | <a> '+' <d>\n<d> ::= '0' | '1' | '3'\n",
            {"num": ["<d>"], "word": ["<a>", "<start>"], "children": {"<start>": ["<a>"], "<a>": ["<a>", "<d>"]}}),
    "msg": ("<start> ::= <hdr> <body>\n<hdr> ::= <n> ':'\n<n> ::= <d>\n<body> ::= <w>*\n<w> ::= 'x' | 'yy' | <d> | '[' <body> ']'\n<d> ::= '0' | '1' | '2' | '3'\n",
            {"num": ["<n>", "<d>"], "word": ["<w>", "<body>", "<hdr>", "<start>"],
             "children": {"<start>": ["<hdr>", "<body>"], "<hdr>": ["<n>"], "<n>": ["<d>"], "<body>": ["<w>"], "<w>": ["<d>", "<body>"]}}),
}
WORDS = {
    "kv": ["a=1", "ab=12;c=0", "a=0;b=5;cc=25", "abc=210", "c=5;c=5", "b=00"],
    "rec": ["0", "(1)3", "((3)0)1", "1+3", "(0+1)3+1", "3+3+3"],
    "msg": ["1:", "2:xyy", "0:x[yy1]2", "3:[[x]]", "1:0123", "2:yyyy"],
}
OPS = ["==", "!=", "<", "<=", ">", ">="]


def rand_sel(rng, info, depth=2, want=None, items=True):
    syms = info["num"] + info["word"]
    base = rng.choice(syms if want is None else info[want] + syms[:1])
    s = ("sym", base)
    cur = base
    for _ in range(rng.randint(0, depth)):
        r = rng.random()
        kids = info["children"].get(cur, [])
        if r < 0.35 and kids:
            nxt = rng.choice(kids) if rng.random() < 0.85 else rng.choice(syms)
            s = ("dot", s, nxt)
            cur = nxt
        elif r < 0.65:
            nxt = rng.choice(syms)
            s = ("ddot", s, nxt)
            cur = nxt
        elif not items:
            continue
        elif r < 0.85:
            s = ("idx", s, rng.choice([0, 0, 1, 2, -1, 5]))
            cur = None
            break
        else:
            a = rng.choice([0, 0, 1, None, None, 2, -1])
            b = rng.choice([1, 2, 3, None, 0, 0, -1])
            s = ("slice", s, a, b)
            cur = None
            break
    return s


def rand_atom(rng, info, bound=None):
    """bound: list of ("var", name) occurrences that may be used (quantifier bodies)"""
    kind = rng.choice(["int-cmp", "int-cmp", "str-cmp", "len-cmp", "str-expr", "two", "star", "len", "raise", "not-cmp", "arith", "paren-bool"])
    if bound and rng.random() < 0.7:
        o0 = rng.choice(bound)
        if rng.random() < 0.4 and o0[1].startswith("<"):
            # selector below the bound symbol
            sub = rng.choice(info["num"] + info["word"])
            o0 = ("one", (rng.choice(["dot", "ddot"]), ("sym", o0[1]), sub))
    else:
        o0 = ("one", rand_sel(rng, info))
    k = rng.choice([0, 1, 2, 3, 5, 12])
    op = rng.choice(OPS)
    if kind == "int-cmp":
        return ("atom", f"int({{0}}) {op} {k}", [o0])
    if kind == "str-cmp":
        lit = rng.choice(["a", "0", "1", "x", "ab", "", "(1)3", "yy"])
        return ("atom", f"str({{0}}) {rng.choice(['==', '!='])} {lit!r}", [o0])
    if kind == "len-cmp":
        return ("atom", f"len(str({{0}})) {op} {k}", [o0])
    if kind == "str-expr":
        t = rng.choice(["str({0}).startswith('a')", "str({0}).isdigit()", "'1' in str({0})", "not str({0}).endswith('0')",
                        "str({0}).count('x') < 2", "len({0}) > 0", "str({0}) in ['0', '1', 'a', 'x']"])
        return ("atom", t, [o0])
    if kind == "two":
        o1 = ("one", rand_sel(rng, info))
        t = rng.choice(["str({0}) != str({1})", "int({0}) <= int({1})", "len(str({0})) + len(str({1})) < 9", "int({0}) + int({1}) != 4"])
        return ("atom", t, [o0, o1])
    if kind == "star":
        o = ("star", rand_sel(rng, info, items=False))   # `*<a>[i]` is ambiguous in the docs: not generated
        t = rng.choice(["len({0}) " + op + " " + str(k), "'1' in [str(e) for e in {0}]", "sum(len(str(e)) for e in {0}) < 7",
                        "all(str(e) != 'a' for e in {0})"])
        return ("atom", t, [o])
    if kind == "len":
        return ("atom", f"{{0}} {op} {k}", [("len", rand_sel(rng, info))])
    if kind == "raise":
        t = rng.choice(["10 // int({0}) > 0", "int({0}) >= 0", "str({0})[3] != 'q'", "10 % int({0}) == 0", "int(str({0})[0]) < 9"])
        return ("atom", t, [o0])
    if kind == "paren-bool":
        # a parenthesised Python expression is ONE atom: one joint product over all symbols it mentions
        o1 = ("one", rand_sel(rng, info))
        t = rng.choice(["(int({0}) > 1 or str({1}) == 'a')", "(len(str({0})) < 3 and str({1}) != 'x')",
                        "(str({0}) == '0' or int({1}) >= 2)", "(not str({0}).isdigit() or int({1}) < 3)"])
        if t.startswith("(not str"):
            o1 = o0      # the same symbol mentioned twice: two independent occurrences (all pairs are combinations)
        return ("atom", t, [o0, o1])
    if kind == "not-cmp":
        return ("atom", f"not int({{0}}) {rng.choice(['>', '<', '=='])} {k}", [o0])
    return ("atom", f"int({{0}}) * 2 + 1 {op} {k}", [o0])


def rand_formula(rng, info, bound=None):
    """disjunction of conjunctions of atoms, printed without parentheses (each atom is one Python expression)"""
    def conj():
        n = rng.choice([1, 1, 2, 3])
        atoms = [rand_atom(rng, info, bound) for _ in range(n)]
        return atoms[0] if n == 1 else ("and", atoms)
    if rng.random() < 0.08:
        # a conditional expression as the whole constraint: ONE Python expression (arms without bare comparisons, which the
        # spec grammar would otherwise take for a comparison constraint); every part may mention symbols
        def occ():
            if bound and rng.random() < 0.5:
                return rng.choice(bound)
            return ("one", rand_sel(rng, info, depth=1))
        t = rng.choice(["(int({0}) > 1) if str({1}).isdigit() else (len(str({2})) < 3)", "str({0}).isdigit() if len(str({1})) > 1 else str({2}).startswith('a')",
                        "True if str({0}) == 'a' else (int({1}) < 3)", "(len(str({0})) % 2) if str({1}).startswith('1') else (len(str({2})) > 1)",
                        "(not str({0}).isdigit()) if (not len(str({1})) > 2) else ('1' in str({2}))"])
        return ("atom", t, [occ() for _ in range(t.count("{"))])
    n = rng.choice([1, 1, 1, 2, 3])
    parts = [conj() for _ in range(n)]
    return parts[0] if n == 1 else ("or", parts)


def rand_constraint(rng, info, depth=2, bound=None):
    r = rng.random()
    if depth <= 0 or r < 0.55:
        return rand_formula(rng, info, bound)
    sel = rand_sel(rng, info, depth=1, items=False)      # quantifying over an item/slice selection is not documented
    sym_bound = [b[1] for b in (bound or []) if b[1].startswith("<")]
    if sym_bound and rng.random() < 0.6:
        # nested quantifier whose range is rooted at an outer bound variable
        sel = (rng.choice(["dot", "ddot"]), ("sym", rng.choice(sym_bound)), rng.choice(info["num"] + info["word"]))
    elif not bound and rng.random() < 0.35:
        # make sure nesting with a dependent inner range is frequent: build it explicitly
        outer_sym = rng.choice(list(info["children"]))
        var = rng.choice(["<v>", "<q>"])
        inner_var = "<v2>" if rng.random() < 0.5 else "y"
        inner_sel = (rng.choice(["dot", "ddot"]), ("sym", var), rng.choice(info["children"][outer_sym]))
        inner_body = rand_formula(rng, info, [("var", var), ("var", inner_var)])
        ik = rng.choice(["forall", "exists"]) if inner_var.startswith("<") else rng.choice(["all", "any"])
        ok = rng.choice(["forall", "exists"])
        return (ok, var, ("sym", outer_sym), (ik, inner_var, inner_sel, inner_body))
    if r < 0.8:
        k = rng.choice(["all", "any"])
        if rng.random() < 0.6:
            var = rng.choice(["x", "e", "elem"])
        else:
            var = rng.choice(["<v>", "<q>"])
        if bound and any(b[1] == var for b in bound):
            var = var + "2" if not var.startswith("<") else "<v2>"
        body = rand_constraint(rng, info, depth - 1, (bound or []) + [("var", var)])
        return (k, var, sel, body)
    k = rng.choice(["forall", "exists"])
    var = rng.choice(["<v>", "<q>"])
    if bound and any(b[1] == var for b in bound):
        var = "<v2>"
    body = rand_constraint(rng, info, depth - 1, (bound or []) + [("var", var)])
    return (k, var, sel, body)


def discriminating(rng, info):
    """A quantified constraint over a symbol that usually has several instances, whose body depends on the bound
    variable and is satisfiable without being trivial: the verdict differs from element to element, so anything that
    confuses the elements of one tree (memo keys, scopes, bindings) changes it."""
    universal = rng.random() < 0.6
    ident = rng.random() < 0.6
    if ident:
        k, var = ("all" if universal else "any"), rng.choice(["x", "e", "elem"])
    else:
        k, var = rng.choice([("forall", "exists")[0 if universal else 1], ("all", "any")[0 if universal else 1]]), rng.choice(["<v>", "<q>"])
    numeric = rng.random() < 0.6 and info["num"]
    sym = rng.choice(info["num"] if numeric else info["word"])
    o = ("var", var)
    if numeric:
        body = ("atom", rng.choice(["int({0}) >= 1", "int({0}) != 0", "int({0}) % 2 == 1", "int({0}) < 3", "str({0}) != '0'"] if universal
                                   else ["int({0}) == 1", "int({0}) >= 2", "str({0}) == '2'", "int({0}) % 2 == 0"]), [o])
    else:
        body = ("atom", rng.choice(["len(str({0})) <= 2", "str({0}) != 'a'", "not str({0}).startswith('b')", "len(str({0})) != 1"] if universal
                                   else ["len(str({0})) >= 2", "str({0}) == 'a'", "str({0}).startswith('b')"]), [o])
    return (k, var, ("sym", sym), body)


def features(c, out=None):
    if out is None:
        out = set()
    k = c[0]
    out.add(k)
    if k == "atom":
        for o in c[2]:
            out.add("occ:" + o[0])
            if o[0] in ("one", "star", "len"):
                s = o[1]
                while s[0] != "sym":
                    out.add("sel:" + s[0])
                    s = s[1]
        if c[1].startswith("not "):
            out.add("not-before-comparison")
    elif k in ("and", "or"):
        for x in c[1]:
            features(x, out)
    else:
        s = c[2]
        while s[0] != "sym":
            out.add("qsel:" + s[0])
            s = s[1]
        out.add("qvar:" + ("symbol" if c[1].startswith("<") else "identifier"))
        features(c[3], out)
    return out
