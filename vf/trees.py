"""Canonical dumps and structural rebuilds of derivation trees (harness side)."""


def sym_key(sym):
    """A stable, printable key of a tree symbol."""
    if sym.is_non_terminal:
        return ("N", sym.name())
    if sym.is_terminal:
        v = sym.value()
        raw = v._value
        tb = getattr(v, "_trailing_bits", ()) or ()
        tname = v.type_.name if hasattr(v, "type_") else "?"
        if isinstance(raw, bytes):
            raw = "b:" + raw.hex()
        elif isinstance(raw, str):
            raw = "s:" + raw
        else:
            raw = repr(raw)
        return ("T", tname, raw, tuple(tb), bool(getattr(sym, "is_regex", False)))
    return ("S", type(sym).__name__)


def dump(tree, with_sources=True, with_reps=False):
    d = (
        sym_key(tree.symbol),
        tree.sender,
        tree.recipient,
        tuple(dump(c, with_sources, with_reps) for c in tree._children),
    )
    if with_sources:
        d = d + (tuple(dump(s, with_sources, with_reps) for s in tree._sources),)
    if with_reps:
        d = d + (tuple(tree.origin_repetitions),)
    return d


def shape(tree):
    """Shape without sources: what equality is defined on."""
    return (
        sym_key(tree.symbol),
        tree.sender,
        tree.recipient,
        tuple(shape(c) for c in tree._children),
    )


def leaves(tree, out=None):
    if out is None:
        out = []
    if tree.symbol.is_terminal:
        out.append(tree)
    else:
        for c in tree._children:
            leaves(c, out)
    return out


def pretty(tree, depth=0, limit=60):
    """Short human-readable form for evidence samples and replays."""
    def go(t):
        if t.symbol.is_terminal:
            return t.symbol.format_as_spec()
        return t.symbol.format_as_spec() + "(" + " ".join(go(c) for c in t._children) + ")"
    s = go(tree)
    return s if len(s) <= 4000 else s[:4000] + "…"


def to_jsonable(x):
    if isinstance(x, (list, tuple)):
        return [to_jsonable(i) for i in x]
    if isinstance(x, dict):
        return {str(k): to_jsonable(v) for k, v in x.items()}
    if isinstance(x, bytes):
        return "b:" + x.hex()
    if isinstance(x, (str, int, float, bool)) or x is None:
        return x
    return repr(x)
