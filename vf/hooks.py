"""Wrappers installed on the real functions from the harness process."""
import functools
import sys
import threading
from collections import Counter

COUNTS = Counter()
_lock = threading.Lock()
SWALLOWED = []  # (type name, message, where)


def count(name, n=1):
    with _lock:
        COUNTS[name] += n


def wrap_attr(owner, name, make_wrapper):
    """Replace owner.name by make_wrapper(original); returns original."""
    orig = owner.__dict__[name] if isinstance(owner, type) else getattr(owner, name)
    raw = orig
    is_static = isinstance(orig, staticmethod)
    is_class = isinstance(orig, classmethod)
    if is_static or is_class:
        raw = orig.__func__
    new = make_wrapper(raw)
    functools.update_wrapper(new, raw)
    if is_static:
        new = staticmethod(new)
    elif is_class:
        new = classmethod(new)
    setattr(owner, name, new)
    return raw


def rebind_everywhere(old, new, prefix="fandango"):
    """Rebind module-level names that were bound with `from m import f`."""
    n = 0
    for mname, mod in list(sys.modules.items()):
        if mod is None or not (mname == prefix or mname.startswith(prefix + ".")):
            continue
        for k, v in list(vars(mod).items()):
            if v is old:
                setattr(mod, k, new)
                n += 1
    return n


def install_print_exception_hook():
    """Count (and quieten) swallowed exceptions in every importing module."""
    import fandango.logger as fl

    old = fl.print_exception

    def print_exception(e, exception_note=None):
        count("print_exception")
        with _lock:
            if len(SWALLOWED) < 200:
                SWALLOWED.append((type(e).__name__, str(e)[:200], exception_note))
        return None

    n = rebind_everywhere(old, print_exception)
    return n


def silence_logger():
    import logging
    from fandango.logger import LOGGER

    LOGGER.setLevel(logging.CRITICAL + 1)
    LOGGER.disabled = True  # Fandango() resets the level; `disabled` survives it
